(* C06 — parsing accepts exactly the literal grammar and never yields a wrong value. *)
From FP Require Import Machine SrcConsts Pow10 Parser Out StringSpec Run RunMore.
From FP Require Import MachineFacts SwarFacts ParserFacts.

(* For every byte string (every byte 0..255, any length a slice can have - below 2^62)
   and every build profile FromStr/TryFrom return a value: no panic, no overflow check,
   no read outside the string (the model's skip_n/SWAR load answer UB when fewer bytes
   remain than they take), and the result does not depend on the profile *)
Theorem C06_total_no_panic_no_oob :
  forall pf s, Forall byte_ok s -> len s < 2 ^ 62 -> from_str pf s = Val (from_str_ref s).
Proof. exact from_str_total. Qed.
Check C06_total_no_panic_no_oob :
  forall pf s, Forall byte_ok s -> len s < 2 ^ 62 -> from_str pf s = Val (from_str_ref s).
Print Assumptions C06_total_no_panic_no_oob.

(* The outcome is the one the literal grammar prescribes (StringSpec.parse_spec: scanned
   one character at a time, unbounded integers): Ok(d) with exactly the literal's digits
   and max(0, fraction length - exponent) fractional digits when the literal is in the
   grammar, has at most 18 fractional digits after the exponent and a coefficient within
   +-(2^127-1); an error otherwise, Empty for the empty string only - for every string
   outside the two recorded findings K2 (exponent written with more than two digits) and
   K4 (all digits zero with a folded exponent above 38) *)
Theorem C06_parse_equals_grammar :
  forall pf s, Forall byte_ok s -> len s < 2 ^ 62 -> known_str s = 0 ->
    acc_str Sparse s (run_str pf Sparse s) = true.
Proof. exact from_str_acc. Qed.
Check C06_parse_equals_grammar :
  forall pf s, Forall byte_ok s -> len s < 2 ^ 62 -> known_str s = 0 ->
    acc_str Sparse s (run_str pf Sparse s) = true.
Print Assumptions C06_parse_equals_grammar.

Theorem C06_empty_only_for_empty_string :
  forall pf s, Forall byte_ok s -> len s < 2 ^ 62 -> (from_str pf s = Val (PErr PEmpty) <-> s = []).
Proof. exact from_str_empty_iff. Qed.
Check C06_empty_only_for_empty_string :
  forall pf s, Forall byte_ok s -> len s < 2 ^ 62 -> (from_str pf s = Val (PErr PEmpty) <-> s = []).
Print Assumptions C06_empty_only_for_empty_string.

(* str_to_dec is the functional scanner [core]; what it returns is an i128 coefficient
   and an exponent in -18..99 (this discharges the premise of C18) *)
Theorem C06_str_to_dec_functional :
  forall pf s, Forall byte_ok s -> len s < 2 ^ 62 -> str_to_dec pf s = Val (core s).
Proof. exact str_to_dec_core. Qed.
Check C06_str_to_dec_functional :
  forall pf s, Forall byte_ok s -> len s < 2 ^ 62 -> str_to_dec pf s = Val (core s).
Print Assumptions C06_str_to_dec_functional.

Theorem C06_str_to_dec_range :
  forall pf s c x, Forall byte_ok s -> len s < 2 ^ 62 -> str_to_dec pf s = Val (POk (c, x)) ->
    in_range I128 c = true /\ - 2 ^ 63 < x < 2 ^ 63.
Proof. exact str_to_dec_range. Qed.
Check C06_str_to_dec_range :
  forall pf s c x, Forall byte_ok s -> len s < 2 ^ 62 -> str_to_dec pf s = Val (POk (c, x)) ->
    in_range I128 c = true /\ - 2 ^ 63 < x < 2 ^ 63.
Print Assumptions C06_str_to_dec_range.

(* the wrapping 8-digits-at-a-time accumulator with after-the-fact overflow detection:
   the returned coefficient is the value of the digit run, or the overflow flag is set
   exactly when that value does not fit 128 bits - for digit runs of every length *)
Theorem C06_accumulator_exact :
  forall s c o V, Forall byte_ok s -> Inv V c o ->
    exists c' o', accum_coeff s c o = Val (snd (take_digits s), c', o', Z.of_nat (length (fst (take_digits s)))) /\
                  Inv (dv V (fst (take_digits s))) c' o'.
Proof. exact accum_coeff_spec. Qed.
Check C06_accumulator_exact :
  forall s c o V, Forall byte_ok s -> Inv V c o ->
    exists c' o', accum_coeff s c o = Val (snd (take_digits s), c', o', Z.of_nat (length (fst (take_digits s)))) /\
                  Inv (dv V (fst (take_digits s))) c' o'.
Print Assumptions C06_accumulator_exact.

(* the SWAR tests: all-eight-bytes-are-digits, for every 8-byte word; and the
   three-multiplication conversion of eight digits *)
Theorem C06_swar_digit_test :
  forall l, length l = 8%nat -> Forall byte_ok l ->
    chunk_contains_8_digits (lanes 8 l) = forallb isdig l.
Proof. exact contains_spec. Qed.
Check C06_swar_digit_test :
  forall l, length l = 8%nat -> Forall byte_ok l ->
    chunk_contains_8_digits (lanes 8 l) = forallb isdig l.
Print Assumptions C06_swar_digit_test.

Theorem C06_swar_convert :
  forall d0 d1 d2 d3 d4 d5 d6 d7,
    0 <= d0 <= 9 -> 0 <= d1 <= 9 -> 0 <= d2 <= 9 -> 0 <= d3 <= 9 ->
    0 <= d4 <= 9 -> 0 <= d5 <= 9 -> 0 <= d6 <= 9 -> 0 <= d7 <= 9 ->
    chunk_to_u64 (lanes 8 [48 + d0; 48 + d1; 48 + d2; 48 + d3; 48 + d4; 48 + d5; 48 + d6; 48 + d7])
    = d0 * 10 ^ 7 + d1 * 10 ^ 6 + d2 * 10 ^ 5 + d3 * 10 ^ 4 + d4 * 10 ^ 3 + d5 * 10 ^ 2 + d6 * 10 + d7.
Proof. exact chunk_to_u64_digits. Qed.
Check C06_swar_convert :
  forall d0 d1 d2 d3 d4 d5 d6 d7,
    0 <= d0 <= 9 -> 0 <= d1 <= 9 -> 0 <= d2 <= 9 -> 0 <= d3 <= 9 ->
    0 <= d4 <= 9 -> 0 <= d5 <= 9 -> 0 <= d6 <= 9 -> 0 <= d7 <= 9 ->
    chunk_to_u64 (lanes 8 [48 + d0; 48 + d1; 48 + d2; 48 + d3; 48 + d4; 48 + d5; 48 + d6; 48 + d7])
    = d0 * 10 ^ 7 + d1 * 10 ^ 6 + d2 * 10 ^ 5 + d3 * 10 ^ 4 + d4 * 10 ^ 3 + d5 * 10 ^ 2 + d6 * 10 + d7.
Print Assumptions C06_swar_convert.

(* the recorded findings are real in the model: "1e001" (K2) is in the grammar with
   value 10 and is rejected; "0e39" (K4) has value 0 and is rejected *)
Theorem C06_K2_refuted :
  known_K2 [49; 101; 48; 48; 49] = true /\
  parse_spec [49; 101; 48; 48; 49] = PSOk (mkdec 10 0) /\
  from_str dev [49; 101; 48; 48; 49] = Val (PErr PFracLimit).
Proof. vm_compute. repeat split. Qed.
Print Assumptions C06_K2_refuted.

Theorem C06_K4_refuted :
  known_K4 [48; 101; 51; 57] = true /\
  parse_spec [48; 101; 51; 57] = PSOk (mkdec 0 0) /\
  from_str dev [48; 101; 51; 57] = Val (PErr POverflow).
Proof. vm_compute. repeat split. Qed.
Print Assumptions C06_K4_refuted.

(* "-12.5e-1" = -1.25; "+.5E3" = 500; 39 digits wrapping back into range are an error;
   "1e" "1.2.3" "e5" "." "+" are errors; "" is Empty *)
Example C06_nonvacuous :
  from_str dev [45; 49; 50; 46; 53; 101; 45; 49] = Val (POk (mkdec (-125) 2)) /\
  from_str release [43; 46; 53; 69; 51] = Val (POk (mkdec 500 0)) /\
  known_str [45; 49; 50; 46; 53; 101; 45; 49] = 0 /\
  from_str dev ([52; 52; 48] ++ repeat 48 36) = Val (PErr POverflow) /\
  from_str dev [49; 101] = Val (PErr PInvalid) /\
  from_str dev [49; 46; 50; 46; 51] = Val (PErr PInvalid) /\
  from_str dev [101; 53] = Val (PErr PInvalid) /\
  from_str dev [46] = Val (PErr PInvalid) /\
  from_str dev [43] = Val (PErr PInvalid) /\
  from_str dev [] = Val (PErr PEmpty).
Proof. vm_compute. repeat split. Qed.

(* ---- the parts of the parser that lie inside the translated subset, from /repo's current source: the two SWAR helpers of
   fpdec-core/src/parser.rs (gen/GenCore.v) and the exponent folding of impl FromStr for Decimal (gen/GenDec.v; the byte
   loop str_to_dec enters as a parameter that returns what the model's str_to_dec returns) ---- *)
From FP Require Import GenCore GenDec GenTieSwar GenTieDecStr.

Theorem C06_source_swar_digit_test :
  forall pf l, length l = 8%nat -> Forall byte_ok l ->
    g_chunk_contains_8_digits pf (lanes 8 l) = Val (forallb isdig l).
Proof. exact src_swar_digit_test. Qed.
Check C06_source_swar_digit_test :
  forall pf l, length l = 8%nat -> Forall byte_ok l ->
    g_chunk_contains_8_digits pf (lanes 8 l) = Val (forallb isdig l).
Print Assumptions C06_source_swar_digit_test.

Theorem C06_source_swar_convert :
  forall pf d0 d1 d2 d3 d4 d5 d6 d7,
    0 <= d0 <= 9 -> 0 <= d1 <= 9 -> 0 <= d2 <= 9 -> 0 <= d3 <= 9 ->
    0 <= d4 <= 9 -> 0 <= d5 <= 9 -> 0 <= d6 <= 9 -> 0 <= d7 <= 9 ->
    g_chunk_to_u64 pf (lanes 8 [48 + d0; 48 + d1; 48 + d2; 48 + d3; 48 + d4; 48 + d5; 48 + d6; 48 + d7])
    = Val (d0 * 10 ^ 7 + d1 * 10 ^ 6 + d2 * 10 ^ 5 + d3 * 10 ^ 4 + d4 * 10 ^ 3 + d5 * 10 ^ 2 + d6 * 10 + d7).
Proof. exact src_swar_convert. Qed.
Check C06_source_swar_convert :
  forall pf d0 d1 d2 d3 d4 d5 d6 d7,
    0 <= d0 <= 9 -> 0 <= d1 <= 9 -> 0 <= d2 <= 9 -> 0 <= d3 <= 9 ->
    0 <= d4 <= 9 -> 0 <= d5 <= 9 -> 0 <= d6 <= 9 -> 0 <= d7 <= 9 ->
    g_chunk_to_u64 pf (lanes 8 [48 + d0; 48 + d1; 48 + d2; 48 + d3; 48 + d4; 48 + d5; 48 + d6; 48 + d7])
    = Val (d0 * 10 ^ 7 + d1 * 10 ^ 6 + d2 * 10 ^ 5 + d3 * 10 ^ 4 + d4 * 10 ^ 3 + d5 * 10 ^ 2 + d6 * 10 + d7).
Print Assumptions C06_source_swar_convert.

Theorem C06_source_from_str_folding :
  forall pf (ext : list Z -> res ((Z * Z) + gperr)) s,
    ext s = (r <- str_to_dec pf s ;; Val (sum_of_pres r)) ->
    g_FromStr_from_str pf ext s = (r <- from_str pf s ;; Val (sum_of_pres r)).
Proof. exact tie_from_str. Qed.
Check C06_source_from_str_folding :
  forall pf (ext : list Z -> res ((Z * Z) + gperr)) s,
    ext s = (r <- str_to_dec pf s ;; Val (sum_of_pres r)) ->
    g_FromStr_from_str pf ext s = (r <- from_str pf s ;; Val (sum_of_pres r)).
Print Assumptions C06_source_from_str_folding.
