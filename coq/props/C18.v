(* C18 — the Dec! macro and runtime parsing agree on every literal. *)
From FP Require Import Machine SrcConsts Pow10 Parser Out StringSpec RunMore.
From FP Require Import MachineFacts MacroFacts SwarFacts ParserFacts ParserMore.

(* The two separately written exponent foldings (macro: 10i128.pow + checked_mul,
   `> 0` first; from_str: `< 0` first, checked_mul_pow_ten) give the same
   (coefficient, fractional digits) or both fail - for every i128 coefficient and
   every exponent str_to_dec can return, in every build profile. *)
Theorem C18_foldings_agree :
  forall pf c e, in_range I128 c = true -> - 2 ^ 63 < e < 2 ^ 63 ->
    same_result (macro_fold pf c e) (from_str_fold pf c e).
Proof. exact fold_agree. Qed.
Check C18_foldings_agree :
  forall pf c e, in_range I128 c = true -> - 2 ^ 63 < e < 2 ^ 63 ->
    same_result (macro_fold pf c e) (from_str_fold pf c e).
Print Assumptions C18_foldings_agree.

(* Dec!(s) against from_str on the same text (after the macro's removal of the blank
   that TokenStream::to_string may put after a sign): both consume the same
   str_to_dec, so they agree whenever str_to_dec returns (it always does: C06) a
   coefficient in the i128 range and an isize exponent *)
Theorem C18_macro_agrees_with_from_str :
  forall pf s,
    (forall c e, str_to_dec pf (strip_sign_blank s) = Val (POk (c, e)) ->
                 in_range I128 c = true /\ - 2 ^ 63 < e < 2 ^ 63) ->
    (exists r, str_to_dec pf (strip_sign_blank s) = Val r) ->
    same_result (dec_macro pf s) (from_str pf (strip_sign_blank s)).
Proof. exact macro_agrees. Qed.
Check C18_macro_agrees_with_from_str :
  forall pf s,
    (forall c e, str_to_dec pf (strip_sign_blank s) = Val (POk (c, e)) ->
                 in_range I128 c = true /\ - 2 ^ 63 < e < 2 ^ 63) ->
    (exists r, str_to_dec pf (strip_sign_blank s) = Val r) ->
    same_result (dec_macro pf s) (from_str pf (strip_sign_blank s)).
Print Assumptions C18_macro_agrees_with_from_str.

(* the premise discharged by the parser theorems (C06): for every byte string *)
Theorem C18_macro_agrees_every_string :
  forall pf s, Forall byte_ok s -> len s < 2 ^ 62 ->
    same_result (dec_macro pf s) (from_str pf (strip_sign_blank s)).
Proof. exact macro_agrees_total. Qed.
Check C18_macro_agrees_every_string :
  forall pf s, Forall byte_ok s -> len s < 2 ^ 62 ->
    same_result (dec_macro pf s) (from_str pf (strip_sign_blank s)).
Print Assumptions C18_macro_agrees_every_string.

(* the oracle predicate the driver applies to Dec!(..) outcomes holds of the model *)
Theorem C18_macro_accepted :
  forall pf s, Forall byte_ok s -> len s < 2 ^ 62 -> strip_sign_blank s = s -> known_str s = 0 ->
    acc_str Smacro s (run_str pf Smacro s) = true.
Proof. exact macro_acc. Qed.
Check C18_macro_accepted :
  forall pf s, Forall byte_ok s -> len s < 2 ^ 62 -> strip_sign_blank s = s -> known_str s = 0 ->
    acc_str Smacro s (run_str pf Smacro s) = true.
Print Assumptions C18_macro_accepted.

Theorem C18_sign_blank_removed :
  forall sg rest, (sg = 45 \/ sg = 43) -> strip_sign_blank (sg :: 32 :: rest) = sg :: rest.
Proof. exact strip_sign_blank_spec. Qed.
Check C18_sign_blank_removed :
  forall sg rest, (sg = 45 \/ sg = 43) -> strip_sign_blank (sg :: 32 :: rest) = sg :: rest.
Print Assumptions C18_sign_blank_removed.

(* "17e37" compiles and equals from_str; "18e37" fails in both; "- 2.50" is "-2.50" *)
Example C18_nonvacuous :
  dec_macro dev [49; 55; 101; 51; 55] = from_str dev [49; 55; 101; 51; 55] /\
  dec_macro dev [49; 55; 101; 51; 55] = Val (POk (mkdec (17 * 10 ^ 37) 0)) /\
  dec_macro dev [49; 56; 101; 51; 55] = Val (PErr POverflow) /\
  from_str dev [49; 56; 101; 51; 55] = Val (PErr POverflow) /\
  dec_macro dev [45; 32; 50; 46; 53; 48] = Val (POk (mkdec (-250) 2)).
Proof. vm_compute. repeat split. Qed.
