(* C01 — addition and subtraction are exact or signal overflow. *)
From FP Require Import Machine SrcConsts Pow10 Arith IntForms Out ArithSpec Run.
From FP Require Import MachineFacts AddSubFacts.

(* Decimal (+|-) Decimal and the checked_ variants are functions of the
   specification: the exact sum/difference at scale max(p, q) if both aligned
   operands and the result fit an i128, else panic resp. None (never a panic in
   the checked_ variant) — for every pair of well-formed Decimals. *)
Theorem C01_model_equals_spec :
  forall sub x y, wf x = true -> wf y = true ->
    dec_addsub sub x y = sres_op (addsub_spec sub x y) /\
    dec_checked_addsub sub x y = sres_chk (addsub_spec sub x y).
Proof.
  intros sub x y Hx Hy. pose proof (wf_in_range _ Hx). pose proof (wf_in_range _ Hy).
  apply wf_iff in Hx. apply wf_iff in Hy. apply addsub_model_spec; (lia || assumption).
Qed.
Check C01_model_equals_spec :
  forall sub x y, wf x = true -> wf y = true ->
    dec_addsub sub x y = sres_op (addsub_spec sub x y) /\
    dec_checked_addsub sub x y = sres_chk (addsub_spec sub x y).
Print Assumptions C01_model_equals_spec.

Theorem C01_accepted :
  forall pf m (sub : bool) x y, wf x = true -> wf y = true ->
    acc_dd m (if sub then Bsub else Badd) x y 0 (run_dd pf m (if sub then Bsub else Badd) x y 0) = true /\
    acc_dd m (if sub then Bcsub else Bcadd) x y 0 (run_dd pf m (if sub then Bcsub else Bcadd) x y 0) = true.
Proof. exact addsub_acc. Qed.
Check C01_accepted :
  forall pf m (sub : bool) x y, wf x = true -> wf y = true ->
    acc_dd m (if sub then Bsub else Badd) x y 0 (run_dd pf m (if sub then Bsub else Badd) x y 0) = true /\
    acc_dd m (if sub then Bcsub else Bcadd) x y 0 (run_dd pf m (if sub then Bcsub else Bcadd) x y 0) = true.
Print Assumptions C01_accepted.

(* a primitive integer on either side: the separately written bodies compute the
   Decimal/Decimal function on Decimal::from(i), for every i128 value i (hence
   for all nine integer types) *)
Theorem C01_integer_operands :
  forall pf m (sub : bool) t d i, wf d = true -> in_range I128 i = true ->
    let op := if sub then Bsub else Badd in
    let cop := if sub then Bcsub else Bcadd in
    acc_di m op d i 0 (run_di pf m op t d i 0) = true /\
    acc_di m cop d i 0 (run_di pf m cop t d i 0) = true /\
    acc_id m op i d 0 (run_id pf m op t i d 0) = true /\
    acc_id m cop i d 0 (run_id pf m cop t i d 0) = true.
Proof. exact addsub_int_acc. Qed.
Check C01_integer_operands :
  forall pf m (sub : bool) t d i, wf d = true -> in_range I128 i = true ->
    let op := if sub then Bsub else Badd in
    let cop := if sub then Bcsub else Bcadd in
    acc_di m op d i 0 (run_di pf m op t d i 0) = true /\
    acc_di m cop d i 0 (run_di pf m cop t d i 0) = true /\
    acc_id m op i d 0 (run_id pf m op t i d 0) = true /\
    acc_id m cop i d 0 (run_id pf m cop t i d 0) = true.
Print Assumptions C01_integer_operands.

(* the specification carries max(p, q) digits and the exact value *)
Theorem C01_spec_is_exact :
  forall sub x y d, addsub_spec sub x y = SVal d ->
    nfd d = Z.max (nfd x) (nfd y) /\
    coeff d = (if sub then Z.sub else Z.add)
                (coeff x * 10 ^ (Z.max (nfd x) (nfd y) - nfd x))
                (coeff y * 10 ^ (Z.max (nfd x) (nfd y) - nfd y)).
Proof.
  intros sub x y d. unfold addsub_spec.
  destruct (in_range I128 _ && in_range I128 _ && in_range I128 _); [|discriminate].
  intros E. injection E as <-. cbn. destruct sub; split; reflexivity.
Qed.
Check C01_spec_is_exact :
  forall sub x y d, addsub_spec sub x y = SVal d ->
    nfd d = Z.max (nfd x) (nfd y) /\
    coeff d = (if sub then Z.sub else Z.add)
                (coeff x * 10 ^ (Z.max (nfd x) (nfd y) - nfd x))
                (coeff y * 10 ^ (Z.max (nfd x) (nfd y) - nfd y)).
Print Assumptions C01_spec_is_exact.

Example C01_nonvacuous :
  wf (mkdec MAXC 0) = true /\ wf (mkdec 1 18) = true /\
  dec_addsub false (mkdec (MAXC / 10 ^ 18) 0) (mkdec 5 18) = Val (mkdec (MAXC / 10 ^ 18 * 10 ^ 18 + 5) 18) /\
  dec_addsub false (mkdec (MAXC / 10 ^ 18 + 1) 0) (mkdec 5 18) = Panic /\
  dec_checked_addsub true (mkdec (- MAXC) 3) (mkdec 1 3) = Val (Some (mkdec (- 2 ^ 127) 3)) /\
  dec_checked_addsub true (mkdec (- MAXC) 3) (mkdec 2 3) = Val None.
Proof. vm_compute. repeat split. Qed.
