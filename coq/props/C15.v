(* C15 — floor, ceil, trunc, fract, abs, neg, magnitude and sign predicates are exact. *)
From FP Require Import Machine SrcConsts Pow10 Arith Unops Out ArithSpec Run.
From FP Require Import MachineFacts UnopsFacts Lt5Facts MagnitudeFacts.

Theorem C15_unary_operations_accepted :
  forall pf m op d, wf d = true ->
    In op [Ufloor; Uceil; Utrunc; Ufract; Uabs; Uneg; Uiszero; Uisone; Uisneg; Uispos] ->
    acc_un m op d 0 (run_un pf m op d 0) = true.
Proof. exact unops_acc. Qed.
Check C15_unary_operations_accepted :
  forall pf m op d, wf d = true ->
    In op [Ufloor; Uceil; Utrunc; Ufract; Uabs; Uneg; Uiszero; Uisone; Uisneg; Uispos] ->
    acc_un m op d 0 (run_un pf m op d 0) = true.
Print Assumptions C15_unary_operations_accepted.

(* magnitude(d) = floor(log10 |d|), 0 for every zero *)
Theorem C15_magnitude :
  forall pf m d, wf d = true -> acc_un m Umag d 0 (run_un pf m Umag d 0) = true.
Proof. exact magnitude_acc. Qed.
Check C15_magnitude :
  forall pf m d, wf d = true -> acc_un m Umag d 0 (run_un pf m Umag d 0) = true.
Print Assumptions C15_magnitude.

(* the log10 bit trick on the whole u128 range, every profile *)
Theorem C15_log10 :
  forall pf v, 0 < v < 2 ^ 128 -> log_u128 pf v = Val (ilog10 v).
Proof. exact log_u128_ok. Qed.
Check C15_log10 :
  forall pf v, 0 < v < 2 ^ 128 -> log_u128 pf v = Val (ilog10 v).
Print Assumptions C15_log10.

(* the specification's ilog10 is the position of the most significant decimal digit *)
Theorem C15_ilog10_is_floor_log10 :
  forall v, 0 < v < 10 ^ 60 -> 0 <= ilog10 v /\ 10 ^ ilog10 v <= v < 10 ^ (ilog10 v + 1).
Proof. exact ilog10_spec. Qed.
Check C15_ilog10_is_floor_log10 :
  forall v, 0 < v < 10 ^ 60 -> 0 <= ilog10 v /\ 10 ^ ilog10 v <= v < 10 ^ (ilog10 v + 1).
Print Assumptions C15_ilog10_is_floor_log10.

(* the specifications of floor / ceil / trunc / fract say what the property says *)
Theorem C15_spec_meaning :
  forall d, 0 <= nfd d ->
    let t := 10 ^ nfd d in
    (floor_spec d * t <= coeff d < (floor_spec d + 1) * t) /\
    ((ceil_spec d - 1) * t < coeff d <= ceil_spec d * t) /\
    (trunc_spec d * t + fract_spec d = coeff d) /\
    (Z.abs (fract_spec d) < t) /\ (0 <= Z.sgn (fract_spec d) * Z.sgn (coeff d)).
Proof.
  intros d Hn t. assert (Ht : 0 < t) by (apply Z.pow_pos_nonneg; lia).
  unfold floor_spec, ceil_spec, trunc_spec, fract_spec. fold t.
  pose proof (Z.div_mod (coeff d) t ltac:(lia)). pose proof (Z.mod_pos_bound (coeff d) t Ht).
  pose proof (Z.div_mod (- coeff d) t ltac:(lia)). pose proof (Z.mod_pos_bound (- coeff d) t Ht).
  pose proof (Z.quot_rem' (coeff d) t). pose proof (Z.rem_bound_abs (coeff d) t ltac:(lia)).
  pose proof (Z.rem_sign_mul (coeff d) t ltac:(lia)).
  repeat split; try nia.
Qed.
Check C15_spec_meaning :
  forall d, 0 <= nfd d ->
    let t := 10 ^ nfd d in
    (floor_spec d * t <= coeff d < (floor_spec d + 1) * t) /\
    ((ceil_spec d - 1) * t < coeff d <= ceil_spec d * t) /\
    (trunc_spec d * t + fract_spec d = coeff d) /\
    (Z.abs (fract_spec d) < t) /\ (0 <= Z.sgn (fract_spec d) * Z.sgn (coeff d)).
Print Assumptions C15_spec_meaning.

Example C15_nonvacuous :
  wf (mkdec (-15) 1) = true /\
  dec_floor dev (mkdec (-15) 1) = Val (mkdec (-2) 0) /\
  dec_ceil release (mkdec (-15) 1) = Val (mkdec (-1) 0) /\
  dec_magnitude dev (mkdec (10 ^ 10) 10) = Val 0 /\
  dec_magnitude dev (mkdec 0 5) = Val 0 /\
  dec_magnitude release (mkdec (- MAXC) 18) = Val 20.
Proof. vm_compute. repeat split. Qed.
