(* C07 — Display/ToString is canonical and round-trips through the parser. *)
From FP Require Import Machine SrcConsts Pow10 Parser Format Out ArithSpec StringSpec Run RunMore.
From FP Require Import MachineFacts FormatFacts SwarFacts ParserFacts ParserMore.

(* String::from(d), the text inside Debug's Dec!(..) (same body) and Display without
   flags are the canonical string: optional '-', integer part, and iff f > 0 a '.'
   followed by exactly f digits - for every well-formed Decimal, every profile *)
Theorem C07_string_from_is_canonical :
  forall pf d, wf d = true -> string_from pf d = Val (canon d) /\ debug_inner pf d = Val (canon d).
Proof. intros pf d H. split; exact (string_from_canon pf d H). Qed.
Check C07_string_from_is_canonical :
  forall pf d, wf d = true -> string_from pf d = Val (canon d) /\ debug_inner pf d = Val (canon d).
Print Assumptions C07_string_from_is_canonical.

Theorem C07_to_string_is_canonical :
  forall pf m d, wf d = true ->
    display pf m (mkfmt [32] AUnknown false false false None None) d = Val (canon d).
Proof. exact display_plain_canon. Qed.
Check C07_to_string_is_canonical :
  forall pf m d, wf d = true ->
    display pf m (mkfmt [32] AUnknown false false false None None) d = Val (canon d).
Print Assumptions C07_to_string_is_canonical.

(* shape: exactly f digits after the point, integer part = digits of |c| / 10^f *)
Theorem C07_canonical_shape :
  forall d, wf d = true -> 0 < nfd d ->
    exists intpart frac, canon d = (if coeff d <? 0 then [45] else []) ++ intpart ++ 46 :: frac /\
                         Z.of_nat (length frac) = nfd d /\ intpart = sdigits_of (Z.abs (coeff d) / 10 ^ nfd d).
Proof. exact canon_fraction_length. Qed.
Check C07_canonical_shape :
  forall d, wf d = true -> 0 < nfd d ->
    exists intpart frac, canon d = (if coeff d <? 0 then [45] else []) ++ intpart ++ 46 :: frac /\
                         Z.of_nat (length frac) = nfd d /\ intpart = sdigits_of (Z.abs (coeff d) / 10 ^ nfd d).
Print Assumptions C07_canonical_shape.

Theorem C07_accepted : forall pf d, wf d = true -> acc_tostring d (run_tostring pf d) = true.
Proof. exact tostring_acc. Qed.
Check C07_accepted : forall pf d, wf d = true -> acc_tostring d (run_tostring pf d) = true.
Print Assumptions C07_accepted.

(* the round trip through the parser, for every well-formed Decimal and every profile:
   parse (to_string d) = d, coefficient and number of fractional digits included *)
Theorem C07_roundtrip :
  forall pf d, wf d = true -> from_str pf (canon d) = Val (POk d).
Proof. exact roundtrip. Qed.
Check C07_roundtrip :
  forall pf d, wf d = true -> from_str pf (canon d) = Val (POk d).
Print Assumptions C07_roundtrip.

Theorem C07_roundtrip_accepted :
  forall pf d, wf d = true -> acc_roundtrip d (run_roundtrip pf d) = true.
Proof. exact roundtrip_acc. Qed.
Check C07_roundtrip_accepted :
  forall pf d, wf d = true -> acc_roundtrip d (run_roundtrip pf d) = true.
Print Assumptions C07_roundtrip_accepted.

(* the canonical string is in the literal grammar and denotes d *)
Theorem C07_canon_denotes :
  forall d, wf d = true -> parse_spec (canon d) = PSOk d /\ known_str (canon d) = 0.
Proof. exact parse_spec_canon. Qed.
Check C07_canon_denotes :
  forall d, wf d = true -> parse_spec (canon d) = PSOk d /\ known_str (canon d) = 0.
Print Assumptions C07_canon_denotes.

Example C07_nonvacuous :
  string_from dev (mkdec (-5) 1) = Val [45; 48; 46; 53] /\
  string_from dev (mkdec (-5) 3) = Val [45; 48; 46; 48; 48; 53] /\
  from_str dev [45; 48; 46; 48; 48; 53] = Val (POk (mkdec (-5) 3)) /\
  from_str dev (canon (mkdec MAXC 18)) = Val (POk (mkdec MAXC 18)) /\
  from_str release (canon (mkdec (- MAXC) 0)) = Val (POk (mkdec (- MAXC) 0)).
Proof. vm_compute. repeat split. Qed.
