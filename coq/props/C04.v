(* C04 — mul_rounded, div_rounded and quantize round the exact result once, per mode. *)
From FP Require Import Machine SrcConsts Pow10 WideDiv Rounding Arith IntForms RoundSpec Out ArithSpec Run.
From FP Require Import MachineFacts KernelContract MulFacts DivFacts WideDivFacts.

Theorem C04_mul_rounded :
  forall pf m x y n, wf x = true -> wf y = true -> 0 <= n <= 255 ->
    acc_dd m Bmulr x y n (run_dd pf m Bmulr x y n) = true.
Proof. exact (mul_rounded_acc i256_contract_holds). Qed.
Check C04_mul_rounded :
  forall pf m x y n, wf x = true -> wf y = true -> 0 <= n <= 255 ->
    acc_dd m Bmulr x y n (run_dd pf m Bmulr x y n) = true.
Print Assumptions C04_mul_rounded.

(* Decimal / Decimal, every n of the u8 range (n > 18 is rejected) *)
Theorem C04_div_rounded :
  forall pf m x y n, wf x = true -> wf y = true -> 0 <= n <= 255 ->
    acc_dd m Bdivr x y n (run_dd pf m Bdivr x y n) = true.
Proof. exact (div_rounded_acc sdmf_contract_holds). Qed.
Check C04_div_rounded :
  forall pf m x y n, wf x = true -> wf y = true -> 0 <= n <= 255 ->
    acc_dd m Bdivr x y n (run_dd pf m Bdivr x y n) = true.
Print Assumptions C04_div_rounded.

(* the three integer-operand bodies, outside the known finding K1 (n > 18) *)
Theorem C04_div_rounded_integer_operands :
  forall pf m t d i j n, wf d = true -> - MAXC <= i <= MAXC -> - MAXC <= j <= MAXC ->
    0 <= n -> known_K1 Bdivr n = false ->
    acc_di m Bdivr d i n (run_di pf m Bdivr t d i n) = true /\
    acc_id m Bdivr i d n (run_id pf m Bdivr t i d n) = true /\
    acc_ii m Bdivr i j n (run_ii pf m Bdivr i j n) = true.
Proof.
  intros pf m t d i j n Hd Hi Hj Hn Hk. apply (div_rounded_int_acc sdmf_contract_holds); try assumption.
  unfold known_K1 in Hk. destruct (Z.ltb_spec 18 n); [discriminate|lia].
Qed.
Check C04_div_rounded_integer_operands :
  forall pf m t d i j n, wf d = true -> - MAXC <= i <= MAXC -> - MAXC <= j <= MAXC ->
    0 <= n -> known_K1 Bdivr n = false ->
    acc_di m Bdivr d i n (run_di pf m Bdivr t d i n) = true /\
    acc_id m Bdivr i d n (run_id pf m Bdivr t i d n) = true /\
    acc_ii m Bdivr i j n (run_ii pf m Bdivr i j n) = true.
Print Assumptions C04_div_rounded_integer_operands.

(* K1 is a genuine violation inside its class: a witness *)
Theorem C04_K1_witness :
  known_K1 Bdivr 19 = true /\
  acc_di RHalfEven Bdivr (mkdec 1 0) 3 19 (run_di dev RHalfEven Bdivr I32 (mkdec 1 0) 3 19) = false.
Proof. vm_compute. split; reflexivity. Qed.
Check C04_K1_witness :
  known_K1 Bdivr 19 = true /\
  acc_di RHalfEven Bdivr (mkdec 1 0) 3 19 (run_di dev RHalfEven Bdivr I32 (mkdec 1 0) 3 19) = false.
Print Assumptions C04_K1_witness.

Theorem C04_quantize :
  forall pf m x q, wf x = true -> wf q = true ->
    acc_dd m Bquant x q 0 (run_dd pf m Bquant x q 0) = true.
Proof. exact (quantize_acc sdmf_contract_holds). Qed.
Check C04_quantize :
  forall pf m x q, wf x = true -> wf q = true ->
    acc_dd m Bquant x q 0 (run_dd pf m Bquant x q 0) = true.
Print Assumptions C04_quantize.

Theorem C04_quantize_integer_operands :
  forall pf m t d i j, wf d = true -> - MAXC <= i <= MAXC -> - MAXC <= j <= MAXC ->
    acc_di m Bquant d j 0 (run_di pf m Bquant t d j 0) = true /\
    acc_id m Bquant i d 0 (run_id pf m Bquant t i d 0) = true /\
    acc_ii m Bquant i j 0 (run_ii pf m Bquant i j 0) = true.
Proof. exact (quantize_int_acc sdmf_contract_holds). Qed.
Check C04_quantize_integer_operands :
  forall pf m t d i j, wf d = true -> - MAXC <= i <= MAXC -> - MAXC <= j <= MAXC ->
    acc_di m Bquant d j 0 (run_di pf m Bquant t d j 0) = true /\
    acc_id m Bquant i d 0 (run_id pf m Bquant t i d 0) = true /\
    acc_ii m Bquant i j 0 (run_ii pf m Bquant i j 0) = true.
Print Assumptions C04_quantize_integer_operands.

(* the sticky-bit lemma behind the single rounding of the divisor-scaled branch *)
Theorem C04_sticky_bit :
  forall m cx cy T h, cy <> 0 -> 0 < h -> T = 2 * h -> cx mod cy <> 0 ->
    rndq m cx (cy * T) = rnd m (2 * (cx / cy) + 1) (2 * T).
Proof. exact rnd_sticky. Qed.
Check C04_sticky_bit :
  forall m cx cy T h, cy <> 0 -> 0 < h -> T = 2 * h -> cx mod cy <> 0 ->
    rndq m cx (cy * T) = rnd m (2 * (cx / cy) + 1) (2 * T).
Print Assumptions C04_sticky_bit.

Example C04_nonvacuous :
  dec_div_rounded dev RHalfEven (mkdec 16 1) (mkdec 3 0) 0 = Val (mkdec 1 0) /\
  dec_div_rounded dev RHalfEven (mkdec 69 2) (mkdec (-2) 0) 1 = Val (mkdec (-3) 1) /\
  dec_div_rounded dev RHalfEven (mkdec 1 0) (mkdec 3 0) 19 = Panic /\
  dec_quantize dev RHalfEven (mkdec 2827093 5) (mkdec 5 2) = Val (mkdec 2825 2) /\
  dec_mul_rounded release RFloor (mkdec (-3 * 10 ^ 20) 10) (mkdec (7 * 10 ^ 20) 10) 2 = Val (mkdec (-21 * 10 ^ 22) 2).
Proof. vm_compute. repeat split. Qed.
