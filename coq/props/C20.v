(* C20 — results do not depend on the build profile; overflow is never silent.
   The models of C01-C15 are quantified over the profile [pf] (overflow checks and
   debug assertions on or off): wherever a model equals a profile-free function, or
   does not mention the profile at all, the observable outcome is the same in every
   profile.  Code generation (opt-level) and struct layout (`packed`) do not exist in
   the model: for them the claim rests on the differential builds run by the check. *)
From FP Require Import Machine SrcConsts Pow10 WideDiv Rounding Arith Cmp Unops IntForms Round RoundSpec Out ArithSpec Run.
From FP Require Import MachineFacts RoundingFacts RoundFacts KernelContract MulFacts DivFacts WideMulFacts WideDivFacts FormsFacts Lt5Facts MagnitudeFacts ProfileFree.

(* + - checked_add checked_sub % checked_rem, all comparisons, Decimal-by-integer
   products, integer conversions: after the fix: commits their models do not take the
   profile at all: every overflow is detected by a checked_ operation and signalled
   explicitly *)
Theorem C20_profile_free_models :
  forall pf1 pf2 m op x y n,
    In op [Badd; Bsub; Bcadd; Bcsub; Brem; Bcrem; Beq; Bne; Blt; Ble; Bgt; Bge; Bcmp; Bpcmp; Bmin; Bmax] ->
    run_dd pf1 m op x y n = run_dd pf2 m op x y n.
Proof.
  intros pf1 pf2 m op x y n H. cbn in H.
  repeat (destruct H as [<-|H]); try contradiction; reflexivity.
Qed.
Check C20_profile_free_models :
  forall pf1 pf2 m op x y n,
    In op [Badd; Bsub; Bcadd; Bcsub; Brem; Bcrem; Beq; Bne; Blt; Ble; Bgt; Bge; Bcmp; Bpcmp; Bmin; Bmax] ->
    run_dd pf1 m op x y n = run_dd pf2 m op x y n.
Print Assumptions C20_profile_free_models.

Theorem C20_round :
  forall pf1 pf2 m d n, wf d = true -> -128 <= n <= 127 ->
    dec_round pf1 m d n = dec_round pf2 m d n /\ dec_checked_round pf1 m d n = dec_checked_round pf2 m d n.
Proof. exact round_profile_free. Qed.
Check C20_round :
  forall pf1 pf2 m d n, wf d = true -> -128 <= n <= 127 ->
    dec_round pf1 m d n = dec_round pf2 m d n /\ dec_checked_round pf1 m d n = dec_checked_round pf2 m d n.
Print Assumptions C20_round.

Theorem C20_unary :
  forall pf1 pf2 m op d, wf d = true ->
    In op [Ufloor; Uceil; Utrunc; Ufract; Uabs; Uneg; Umag; Uiszero; Uisone; Uisneg; Uispos] ->
    run_un pf1 m op d 0 = run_un pf2 m op d 0.
Proof. exact unops_profile_free. Qed.
Check C20_unary :
  forall pf1 pf2 m op d, wf d = true ->
    In op [Ufloor; Uceil; Utrunc; Ufract; Uabs; Uneg; Umag; Uiszero; Uisone; Uisneg; Uispos] ->
    run_un pf1 m op d 0 = run_un pf2 m op d 0.
Print Assumptions C20_unary.

(* the rounding kernel and the 256-bit kernels: no unchecked operation ever overflows *)
Theorem C20_kernels :
  forall pf1 pf2 a b k m,
    - MAXC <= a <= MAXC -> - MAXC <= b <= MAXC -> 0 <= k <= 38 -> 0 < m <= MAXC ->
    i128_shifted_div_mod_floor pf1 a k m = i128_shifted_div_mod_floor pf2 a k m /\
    i256_div_mod_floor pf1 a b m = i256_div_mod_floor pf2 a b m.
Proof. exact kernels_profile_free. Qed.
Check C20_kernels :
  forall pf1 pf2 a b k m,
    - MAXC <= a <= MAXC -> - MAXC <= b <= MAXC -> 0 <= k <= 38 -> 0 < m <= MAXC ->
    i128_shifted_div_mod_floor pf1 a k m = i128_shifted_div_mod_floor pf2 a k m /\
    i256_div_mod_floor pf1 a b m = i256_div_mod_floor pf2 a b m.
Print Assumptions C20_kernels.

Theorem C20_div_rounded_kernel :
  forall pf m n d, - MAXC <= n <= MAXC -> - MAXC <= d <= MAXC -> d <> 0 ->
    i128_div_rounded pf n d m = Val (rndq m n d).
Proof. exact i128_div_rounded_ok. Qed.
Check C20_div_rounded_kernel :
  forall pf m n d, - MAXC <= n <= MAXC -> - MAXC <= d <= MAXC -> d <> 0 ->
    i128_div_rounded pf n d m = Val (rndq m n d).
Print Assumptions C20_div_rounded_kernel.

(* * / div_rounded mul_rounded quantize: in EVERY profile the outcome is one the
   specification accepts (C02-C04); the only freedom the specification leaves is the
   single coefficient -2^127 *)
Theorem C20_rounded_operations_every_profile :
  forall pf m x y n, wf x = true -> wf y = true -> 0 <= n <= 255 ->
    acc_dd m Bmul x y 0 (run_dd pf m Bmul x y 0) = true /\
    acc_dd m Bdiv x y 0 (run_dd pf m Bdiv x y 0) = true /\
    acc_dd m Bcdiv x y 0 (run_dd pf m Bcdiv x y 0) = true /\
    acc_dd m Bdivr x y n (run_dd pf m Bdivr x y n) = true /\
    acc_dd m Bmulr x y n (run_dd pf m Bmulr x y n) = true /\
    acc_dd m Bquant x y 0 (run_dd pf m Bquant x y 0) = true.
Proof.
  intros pf m x y n Hx Hy Hn.
  destruct (mul_acc i256_contract_holds pf m x y Hx Hy) as [A _].
  destruct (div_acc sdmf_contract_holds pf m x y Hx Hy) as [B C].
  pose proof (div_rounded_acc sdmf_contract_holds pf m x y n Hx Hy Hn).
  pose proof (mul_rounded_acc i256_contract_holds pf m x y n Hx Hy Hn).
  pose proof (quantize_acc sdmf_contract_holds pf m x y Hx Hy). auto 10.
Qed.
Check C20_rounded_operations_every_profile :
  forall pf m x y n, wf x = true -> wf y = true -> 0 <= n <= 255 ->
    acc_dd m Bmul x y 0 (run_dd pf m Bmul x y 0) = true /\
    acc_dd m Bdiv x y 0 (run_dd pf m Bdiv x y 0) = true /\
    acc_dd m Bcdiv x y 0 (run_dd pf m Bcdiv x y 0) = true /\
    acc_dd m Bdivr x y n (run_dd pf m Bdivr x y n) = true /\
    acc_dd m Bmulr x y n (run_dd pf m Bmulr x y n) = true /\
    acc_dd m Bquant x y 0 (run_dd pf m Bquant x y 0) = true.
Print Assumptions C20_rounded_operations_every_profile.

(* and that freedom is not used differently by different profiles: each of * / checked_mul
   checked_div div_rounded mul_rounded quantize equals a closed-form function that does not
   mention the profile (ProfileFree.cmr_fun / cdr_fun / wide_round), so the model's outcome -
   value, None or panic - is identical in every profile, including at the coefficient -2^127
   and for quantize's intermediate quotient *)
Theorem C20_rounded_operations_profile_free :
  forall pf1 pf2 m op x y n,
    wf x = true -> wf y = true -> 0 <= n <= 255 ->
    In op [Bmul; Bcmul; Bdiv; Bcdiv; Bdivr; Bmulr; Bquant] ->
    run_dd pf1 m op x y n = run_dd pf2 m op x y n.
Proof. exact rounded_ops_profile_free. Qed.
Check C20_rounded_operations_profile_free :
  forall pf1 pf2 m op x y n,
    wf x = true -> wf y = true -> 0 <= n <= 255 ->
    In op [Bmul; Bcmul; Bdiv; Bcdiv; Bdivr; Bmulr; Bquant] ->
    run_dd pf1 m op x y n = run_dd pf2 m op x y n.
Print Assumptions C20_rounded_operations_profile_free.

(* the separately written integer-operand bodies (Decimal op int, int op Decimal, int op int), every
   operation, outside the recorded finding K1 (n <= 18) *)
Theorem C20_integer_forms_profile_free :
  forall pf1 pf2 m op t d i j n,
    wf d = true -> - MAXC <= i <= MAXC -> - MAXC <= j <= MAXC -> 0 <= n <= 18 ->
    run_di pf1 m op t d i n = run_di pf2 m op t d i n /\
    run_id pf1 m op t i d n = run_id pf2 m op t i d n /\
    run_ii pf1 m op i j n = run_ii pf2 m op i j n.
Proof. exact int_forms_profile_free. Qed.
Check C20_integer_forms_profile_free :
  forall pf1 pf2 m op t d i j n,
    wf d = true -> - MAXC <= i <= MAXC -> - MAXC <= j <= MAXC -> 0 <= n <= 18 ->
    run_di pf1 m op t d i n = run_di pf2 m op t d i n /\
    run_id pf1 m op t i d n = run_id pf2 m op t i d n /\
    run_ii pf1 m op i j n = run_ii pf2 m op i j n.
Print Assumptions C20_integer_forms_profile_free.

Theorem C20_div_rounded_closed_form :
  forall pf m cx px cy py n,
    - MAXC <= cx <= MAXC -> - MAXC <= cy <= MAXC -> cy <> 0 ->
    0 <= px <= 18 -> 0 <= py <= 18 -> 0 <= n <= 18 ->
    checked_div_rounded pf m cx px cy py n = Val (cdr_fun m cx px cy py n).
Proof. exact cdr_closed. Qed.
Check C20_div_rounded_closed_form :
  forall pf m cx px cy py n,
    - MAXC <= cx <= MAXC -> - MAXC <= cy <= MAXC -> cy <> 0 ->
    0 <= px <= 18 -> 0 <= py <= 18 -> 0 <= n <= 18 ->
    checked_div_rounded pf m cx px cy py n = Val (cdr_fun m cx px cy py n).
Print Assumptions C20_div_rounded_closed_form.

Theorem C20_mul_rounded_closed_form :
  forall pf m x y n, wf x = true -> wf y = true -> 0 <= n <= 18 ->
    checked_mul_rounded pf m x y n = Val (cmr_fun m x y n).
Proof. exact cmr_closed. Qed.
Check C20_mul_rounded_closed_form :
  forall pf m x y n, wf x = true -> wf y = true -> 0 <= n <= 18 ->
    checked_mul_rounded pf m x y n = Val (cmr_fun m x y n).
Print Assumptions C20_mul_rounded_closed_form.

(* the recorded finding K1 (integer-operand div_rounded lacks the n <= 18 guard) also breaks profile
   independence: n + scale is formed in u8, which panics in a dev build and wraps in a release build.
   7_i64.div_rounded(0.03, 255): panic in dev, a "Decimal" with 255 fractional digits in release *)
Theorem C20_K1_refuted :
  known_K1 Bdivr 255 = true /\
  run_id dev RHalfEven Bdivr I64 7 (mkdec 3 2) 255 = OP /\
  run_id release RHalfEven Bdivr I64 7 (mkdec 3 2) 255 = OV (mkdec 23 255).
Proof. vm_compute. repeat split. Qed.
Print Assumptions C20_K1_refuted.

Example C20_nonvacuous :
  run_dd release RHalfEven Badd (mkdec MAXC 0) (mkdec 1 0) 0 = OP /\
  run_di release RHalfEven Bmul I32 (mkdec MAXC 0) 2 0 = OP /\
  run_un release RHalfEven Uround (mkdec MAXC 0) (-3) = OP /\
  run_dd release RHalfEven Bcdiv (mkdec (MAXC - 680) 0) (mkdec (10 ^ 36 - 4) 18) 0 = ON.
Proof. vm_compute. repeat split. Qed.

(* ---- the translated source (gen/GenCore.v): the rounding kernel and the wide product do not depend on the profile ---- *)
From FP Require Import GenCore GenTieRound.

Theorem C20_source_kernels_profile_free :
  forall pf1 pf2 dflt om n d v,
    - MAXC <= n <= MAXC -> - MAXC <= d <= MAXC -> d <> 0 -> 0 <= v < 2 ^ 128 ->
    g_i128_div_rounded pf1 dflt n d om = g_i128_div_rounded pf2 dflt n d om /\
    g_u128_mul_u128 pf1 v v = g_u128_mul_u128 pf2 v v.
Proof. exact src_kernels_profile_free. Qed.
Check C20_source_kernels_profile_free :
  forall pf1 pf2 dflt om n d v,
    - MAXC <= n <= MAXC -> - MAXC <= d <= MAXC -> d <> 0 -> 0 <= v < 2 ^ 128 ->
    g_i128_div_rounded pf1 dflt n d om = g_i128_div_rounded pf2 dflt n d om /\
    g_u128_mul_u128 pf1 v v = g_u128_mul_u128 pf2 v v.
Print Assumptions C20_source_kernels_profile_free.

(* ---- the Decimal-level functions as translated from /repo's current source (gen/GenDec.v): the translated
   function's outcome is accepted by the specification, for all well-formed operands ---- *)
From FP Require Import GenDec GenTieDecDiv.

Theorem C20_source_mul_div_profile_free :
  forall pf1 pf2 m x y n, wf x = true -> wf y = true -> 0 <= n <= 255 ->
    out_dec (g_Mul_mul pf1 m x y) = out_dec (g_Mul_mul pf2 m x y) /\
    out_dec (g_Div_div pf1 m x y) = out_dec (g_Div_div pf2 m x y) /\
    out_dec (g_MulRounded_mul_rounded pf1 m x y n) = out_dec (g_MulRounded_mul_rounded pf2 m x y n) /\
    out_dec (g_DivRounded_div_rounded pf1 m x y n) = out_dec (g_DivRounded_div_rounded pf2 m x y n).
Proof. exact src_muldiv_profile_free. Qed.
Check C20_source_mul_div_profile_free :
  forall pf1 pf2 m x y n, wf x = true -> wf y = true -> 0 <= n <= 255 ->
    out_dec (g_Mul_mul pf1 m x y) = out_dec (g_Mul_mul pf2 m x y) /\
    out_dec (g_Div_div pf1 m x y) = out_dec (g_Div_div pf2 m x y) /\
    out_dec (g_MulRounded_mul_rounded pf1 m x y n) = out_dec (g_MulRounded_mul_rounded pf2 m x y n) /\
    out_dec (g_DivRounded_div_rounded pf1 m x y n) = out_dec (g_DivRounded_div_rounded pf2 m x y n).
Print Assumptions C20_source_mul_div_profile_free.
