model/Machine.vo model/Machine.glob model/Machine.v.beautified model/Machine.required_vo: model/Machine.v 
model/Machine.vio: model/Machine.v 
model/Machine.vos model/Machine.vok model/Machine.required_vos: model/Machine.v 
gen/SrcConsts.vo gen/SrcConsts.glob gen/SrcConsts.v.beautified gen/SrcConsts.required_vo: gen/SrcConsts.v model/Machine.vo
gen/SrcConsts.vio: gen/SrcConsts.v model/Machine.vio
gen/SrcConsts.vos gen/SrcConsts.vok gen/SrcConsts.required_vos: gen/SrcConsts.v model/Machine.vos
model/Pow10.vo model/Pow10.glob model/Pow10.v.beautified model/Pow10.required_vo: model/Pow10.v model/Machine.vo gen/SrcConsts.vo
model/Pow10.vio: model/Pow10.v model/Machine.vio gen/SrcConsts.vio
model/Pow10.vos model/Pow10.vok model/Pow10.required_vos: model/Pow10.v model/Machine.vos gen/SrcConsts.vos
spec/RoundSpec.vo spec/RoundSpec.glob spec/RoundSpec.v.beautified spec/RoundSpec.required_vo: spec/RoundSpec.v model/Machine.vo
spec/RoundSpec.vio: spec/RoundSpec.v model/Machine.vio
spec/RoundSpec.vos spec/RoundSpec.vok spec/RoundSpec.required_vos: spec/RoundSpec.v model/Machine.vos
model/Rounding.vo model/Rounding.glob model/Rounding.v.beautified model/Rounding.required_vo: model/Rounding.v model/Machine.vo gen/SrcConsts.vo model/Pow10.vo
model/Rounding.vio: model/Rounding.v model/Machine.vio gen/SrcConsts.vio model/Pow10.vio
model/Rounding.vos model/Rounding.vok model/Rounding.required_vos: model/Rounding.v model/Machine.vos gen/SrcConsts.vos model/Pow10.vos
proofs/MachineFacts.vo proofs/MachineFacts.glob proofs/MachineFacts.v.beautified proofs/MachineFacts.required_vo: proofs/MachineFacts.v model/Machine.vo
proofs/MachineFacts.vio: proofs/MachineFacts.v model/Machine.vio
proofs/MachineFacts.vos proofs/MachineFacts.vok proofs/MachineFacts.required_vos: proofs/MachineFacts.v model/Machine.vos
proofs/Pow10Facts.vo proofs/Pow10Facts.glob proofs/Pow10Facts.v.beautified proofs/Pow10Facts.required_vo: proofs/Pow10Facts.v model/Machine.vo gen/SrcConsts.vo model/Pow10.vo proofs/MachineFacts.vo
proofs/Pow10Facts.vio: proofs/Pow10Facts.v model/Machine.vio gen/SrcConsts.vio model/Pow10.vio proofs/MachineFacts.vio
proofs/Pow10Facts.vos proofs/Pow10Facts.vok proofs/Pow10Facts.required_vos: proofs/Pow10Facts.v model/Machine.vos gen/SrcConsts.vos model/Pow10.vos proofs/MachineFacts.vos
proofs/RoundSpecFacts.vo proofs/RoundSpecFacts.glob proofs/RoundSpecFacts.v.beautified proofs/RoundSpecFacts.required_vo: proofs/RoundSpecFacts.v model/Machine.vo spec/RoundSpec.vo proofs/MachineFacts.vo
proofs/RoundSpecFacts.vio: proofs/RoundSpecFacts.v model/Machine.vio spec/RoundSpec.vio proofs/MachineFacts.vio
proofs/RoundSpecFacts.vos proofs/RoundSpecFacts.vok proofs/RoundSpecFacts.required_vos: proofs/RoundSpecFacts.v model/Machine.vos spec/RoundSpec.vos proofs/MachineFacts.vos
proofs/RoundingFacts.vo proofs/RoundingFacts.glob proofs/RoundingFacts.v.beautified proofs/RoundingFacts.required_vo: proofs/RoundingFacts.v model/Machine.vo gen/SrcConsts.vo model/Pow10.vo spec/RoundSpec.vo model/Rounding.vo proofs/MachineFacts.vo proofs/Pow10Facts.vo proofs/RoundSpecFacts.vo
proofs/RoundingFacts.vio: proofs/RoundingFacts.v model/Machine.vio gen/SrcConsts.vio model/Pow10.vio spec/RoundSpec.vio model/Rounding.vio proofs/MachineFacts.vio proofs/Pow10Facts.vio proofs/RoundSpecFacts.vio
proofs/RoundingFacts.vos proofs/RoundingFacts.vok proofs/RoundingFacts.required_vos: proofs/RoundingFacts.v model/Machine.vos gen/SrcConsts.vos model/Pow10.vos spec/RoundSpec.vos model/Rounding.vos proofs/MachineFacts.vos proofs/Pow10Facts.vos proofs/RoundSpecFacts.vos
model/Round.vo model/Round.glob model/Round.v.beautified model/Round.required_vo: model/Round.v model/Machine.vo gen/SrcConsts.vo model/Pow10.vo model/Rounding.vo
model/Round.vio: model/Round.v model/Machine.vio gen/SrcConsts.vio model/Pow10.vio model/Rounding.vio
model/Round.vos model/Round.vok model/Round.required_vos: model/Round.v model/Machine.vos gen/SrcConsts.vos model/Pow10.vos model/Rounding.vos
spec/ArithSpec.vo spec/ArithSpec.glob spec/ArithSpec.v.beautified spec/ArithSpec.required_vo: spec/ArithSpec.v model/Machine.vo spec/RoundSpec.vo
spec/ArithSpec.vio: spec/ArithSpec.v model/Machine.vio spec/RoundSpec.vio
spec/ArithSpec.vos spec/ArithSpec.vok spec/ArithSpec.required_vos: spec/ArithSpec.v model/Machine.vos spec/RoundSpec.vos
proofs/RoundFacts.vo proofs/RoundFacts.glob proofs/RoundFacts.v.beautified proofs/RoundFacts.required_vo: proofs/RoundFacts.v model/Machine.vo gen/SrcConsts.vo model/Pow10.vo spec/RoundSpec.vo model/Rounding.vo model/Round.vo spec/ArithSpec.vo proofs/MachineFacts.vo proofs/Pow10Facts.vo proofs/RoundSpecFacts.vo proofs/RoundingFacts.vo
proofs/RoundFacts.vio: proofs/RoundFacts.v model/Machine.vio gen/SrcConsts.vio model/Pow10.vio spec/RoundSpec.vio model/Rounding.vio model/Round.vio spec/ArithSpec.vio proofs/MachineFacts.vio proofs/Pow10Facts.vio proofs/RoundSpecFacts.vio proofs/RoundingFacts.vio
proofs/RoundFacts.vos proofs/RoundFacts.vok proofs/RoundFacts.required_vos: proofs/RoundFacts.v model/Machine.vos gen/SrcConsts.vos model/Pow10.vos spec/RoundSpec.vos model/Rounding.vos model/Round.vos spec/ArithSpec.vos proofs/MachineFacts.vos proofs/Pow10Facts.vos proofs/RoundSpecFacts.vos proofs/RoundingFacts.vos
extract/Extract.vo extract/Extract.glob extract/Extract.v.beautified extract/Extract.required_vo: extract/Extract.v model/Machine.vo gen/SrcConsts.vo model/Pow10.vo spec/RoundSpec.vo model/Rounding.vo model/Round.vo spec/ArithSpec.vo
extract/Extract.vio: extract/Extract.v model/Machine.vio gen/SrcConsts.vio model/Pow10.vio spec/RoundSpec.vio model/Rounding.vio model/Round.vio spec/ArithSpec.vio
extract/Extract.vos extract/Extract.vok extract/Extract.required_vos: extract/Extract.v model/Machine.vos gen/SrcConsts.vos model/Pow10.vos spec/RoundSpec.vos model/Rounding.vos model/Round.vos spec/ArithSpec.vos
