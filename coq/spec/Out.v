(* Out.v — observable outcomes of an operation, shared by model, specification,
   driver and harness.  One constructor per line format of the protocol. *)
From FP Require Import Machine.

Inductive out :=
| OV (d : dec)                      (* V c p      a Decimal *)
| ON                                (* N          Option::None *)
| OP                                (* P          panic *)
| OE (k : Z)                        (* E kind     error value *)
| OB (b : bool)                     (* B 0/1 *)
| OO (c : option comparison)        (* O lt/eq/gt/none *)
| OI (z : Z)                        (* I z *)
| OQ (a b : Z)                      (* Q a b      pair of integers *)
| OS (s : list Z)                   (* S hex      byte string *)
| OF (bits : Z)                     (* F bits     float bit pattern *)
| OL (l : list Z)                   (* L a,b,..   list of integers *)
| OUB                               (* model only: out-of-bounds unchecked access *)
| OFuel                             (* model only: fuel exhausted *)
| OX.                               (* unknown operation *)

Definition dec_eqb (a b : dec) : bool := (coeff a =? coeff b) && (nfd a =? nfd b).

Definition cmp_eqb (a b : comparison) : bool :=
  match a, b with Eq, Eq | Lt, Lt | Gt, Gt => true | _, _ => false end.

Fixpoint zlist_eqb (a b : list Z) : bool :=
  match a, b with
  | [], [] => true
  | x :: a', y :: b' => (x =? y) && zlist_eqb a' b'
  | _, _ => false
  end.

Definition out_eqb (a b : out) : bool :=
  match a, b with
  | OV d, OV e => dec_eqb d e
  | ON, ON | OP, OP | OUB, OUB | OFuel, OFuel | OX, OX => true
  | OE k, OE l => k =? l
  | OB x, OB y => Bool.eqb x y
  | OO None, OO None => true
  | OO (Some x), OO (Some y) => cmp_eqb x y
  | OI x, OI y => x =? y
  | OQ a1 b1, OQ a2 b2 => (a1 =? a2) && (b1 =? b2)
  | OS s, OS t => zlist_eqb s t
  | OF x, OF y => x =? y
  | OL s, OL t => zlist_eqb s t
  | _, _ => false
  end.

Definition of_res {A} (f : A -> out) (r : res A) : out :=
  match r with Val a => f a | Panic => OP | UB => OUB | Fuel => OFuel end.
Definition of_opt {A} (f : A -> out) (o : option A) : out :=
  match o with Some a => f a | None => ON end.

Definition out_dec (r : res dec) : out := of_res OV r.
Definition out_odec (r : res (option dec)) : out := of_res (of_opt OV) r.
Definition out_bool (r : res bool) : out := of_res OB r.
Definition out_ocmp (r : res (option comparison)) : out := of_res OO r.
Definition out_cmp (r : res comparison) : out := of_res (fun c => OO (Some c)) r.
Definition out_int (r : res Z) : out := of_res OI r.
