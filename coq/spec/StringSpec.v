(* StringSpec.v — specification of parsing (C06), canonical rendering (C07) and
   formatting (C11), written from the property statements. *)
From FP Require Import Machine RoundSpec.

(* ------------------------------------------------------------------ C06 *)
(* literal grammar  [+|-](digits[.digits*] | .digits)[(e|E)[+|-]digits]
   scanned one character at a time *)
Definition digit_val (b : Z) : option Z := if (48 <=? b) && (b <=? 57) then Some (b - 48) else None.

Fixpoint take_digits (s : list Z) : list Z * list Z :=
  match s with
  | b :: s' => match digit_val b with
               | Some d => let '(ds, r) := take_digits s' in (d :: ds, r)
               | None => ([], s)
               end
  | [] => ([], [])
  end.

Definition digits_value (ds : list Z) : Z := fold_left (fun a d => a * 10 + d) ds 0.

Definition take_sign (s : list Z) : bool * list Z :=
  match s with
  | c :: r => if c =? 45 then (true, r) else if c =? 43 then (false, r) else (false, s)
  | [] => (false, s)
  end.

Definition both_empty (a b : list Z) : bool := match a, b with [], [] => true | _, _ => false end.

Inductive lit :=
| LitEmpty                                   (* the empty string *)
| LitBad                                     (* not in the grammar *)
| LitOk (neg : bool) (ip fp : list Z) (e : Z) (n_exp_digits : Z).

Definition scan (s : list Z) : lit :=
  match s with
  | [] => LitEmpty
  | _ =>
    let '(neg, s1) := take_sign s in
    let '(ip, s2) := take_digits s1 in
    let '(has_dot, fp, s3) :=
      match s2 with
      | c :: r => if c =? 46 then let '(f, r') := take_digits r in (true, f, r') else (false, [], s2)
      | [] => (false, [], s2)
      end in
    (* digits[.digits*]  or  .digits *)
    if both_empty ip fp then LitBad else
    match s3 with
    | [] => LitOk neg ip fp 0 0
    | c :: r =>
        if (c =? 101) || (c =? 69) then
          let '(eneg, r1) := take_sign r in
          let '(ed, r2) := take_digits r1 in
          match ed, r2 with
          | _ :: _, [] => LitOk neg ip fp (if eneg then - digits_value ed else digits_value ed) (Z.of_nat (length ed))
          | _, _ => LitBad
          end
        else LitBad
    end
  end.

Inductive parse_s := PSEmpty | PSErr | PSOk (d : dec).

Definition parse_spec (s : list Z) : parse_s :=
  match scan s with
  | LitEmpty => PSEmpty
  | LitBad => PSErr
  | LitOk neg ip fp e _ =>
      let D := digits_value (ip ++ fp) in
      let k := Z.of_nat (length fp) - e in
      if 18 <? k then PSErr else
      if 0 <=? k then (if MAXC <? D then PSErr else PSOk (mkdec (if neg then - D else D) k)) else
      (* k < 0: the value is the integer D * 10^(-k); decided without forming a huge power:
         zero stays zero, and D >= 1 with -k >= 39 exceeds 2^127 - 1 < 10^39 *)
      if D =? 0 then PSOk (mkdec 0 0) else
      if 39 <=? - k then PSErr else
      let c := D * 10 ^ (- k) in
      if MAXC <? c then PSErr else PSOk (mkdec (if neg then - c else c) 0)
  end.

(* known findings of the parser (see known_findings.json) *)
Definition known_K2 (s : list Z) : bool :=   (* exponent written with more than two digits *)
  match scan s with LitOk _ _ _ _ n => 2 <? n | _ => false end.
Definition known_K4 (s : list Z) : bool :=   (* all digits zero and folded exponent above 38 *)
  match scan s with
  | LitOk _ ip fp e _ => (digits_value (ip ++ fp) =? 0) && (38 <? e - Z.of_nat (length fp))
  | _ => false
  end.

(* ------------------------------------------------------------------ C07 *)
(* decimal digits, most significant first, of a non-negative integer *)
Fixpoint sdigits (fuel : nat) (v : Z) : list Z :=
  match fuel with
  | O => []
  | S f => if v <? 10 then [48 + v] else sdigits f (v / 10) ++ [48 + v mod 10]
  end.
Definition sdigits_of (v : Z) : list Z := sdigits 50 v.
Fixpoint szeros (n : nat) : list Z := match n with O => [] | S k => 48 :: szeros k end.
(* exactly [w] digits: v < 10^w written with leading zeros *)
Definition fixed_digits (w v : Z) : list Z :=
  let ds := sdigits_of v in szeros (Z.to_nat (w - Z.of_nat (length ds))) ++ ds.

(* optional '-', integer part without leading zeros, and iff f > 0 a '.' and exactly f digits *)
Definition canon_abs (a f : Z) : list Z :=
  sdigits_of (a / 10 ^ f) ++ (if 0 <? f then 46 :: fixed_digits f (a mod 10 ^ f) else []).
Definition canon (d : dec) : list Z :=
  (if coeff d <? 0 then [45] else []) ++ canon_abs (Z.abs (coeff d)) (nfd d).

(* ------------------------------------------------------------------ C11 *)
Inductive salign := SLeft | SRight | SCenter | SDefault.
Record sfmt := mksfmt {
  s_fill : list Z; s_align : salign; s_plus : bool; s_alt : bool; s_zero : bool;
  s_width : option Z; s_prec : option Z }.

Fixpoint srep (n : nat) (fill : list Z) : list Z :=
  match n with O => [] | S k => fill ++ srep k fill end.

(* Rust's integer padding: sign first; with '0' zero padding between sign and digits
   (fill and alignment ignored); otherwise fill on the side(s) given by the alignment,
   default right alignment, centre puts the smaller half first *)
Definition pad_spec (fs : sfmt) (sign body : list Z) : list Z :=
  let n := Z.of_nat (length sign) + Z.of_nat (length body) in
  match s_width fs with
  | None => sign ++ body
  | Some w =>
      if w <=? n then sign ++ body
      else if s_zero fs then sign ++ szeros (Z.to_nat (w - n)) ++ body
      else
        let pad := w - n in
        match s_align fs with
        | SLeft => sign ++ body ++ srep (Z.to_nat pad) (s_fill fs)
        | SRight | SDefault => srep (Z.to_nat pad) (s_fill fs) ++ sign ++ body
        | SCenter => srep (Z.to_nat (pad / 2)) (s_fill fs) ++ sign ++ body ++ srep (Z.to_nat (pad - pad / 2)) (s_fill fs)
        end
  end.

(* d rounded to min(P, 18) digits under mode m (zero-extended when P exceeds d's
   digits), exactly that many digits after the point and none when it is 0; the
   sign is taken from d *)
Definition fmt_spec (m : mode) (fs : sfmt) (d : dec) : list Z :=
  let f := nfd d in
  let p := match s_prec fs with Some P => Z.min P 18 | None => f end in
  let a := if p <? f then Z.abs (rnd m (coeff d) (10 ^ (f - p))) else Z.abs (coeff d) * 10 ^ (p - f) in
  let sign := if coeff d <? 0 then [45] else if s_plus fs then [43] else [] in
  pad_spec fs sign (canon_abs a p).
