(* RoundSpec.v — the specification of rounding, written from the documentation
   of the eight modes (Python's decimal module wording), in sign-magnitude
   form: truncate, look at the magnitude of what was cut off, and possibly
   step one unit away from zero.  Independent of the code, which works on the
   floor quotient and a non-negative remainder. *)
From FP Require Import Machine.

(* rounding of the rational num/den, den > 0, to an integer *)
Definition rnd (m : mode) (num den : Z) : Z :=
  let t := Z.quot num den in
  let rr := Z.abs (Z.rem num den) in
  let away := t + Z.sgn num in
  if rr =? 0 then t else
  match m with
  | RDown => t
  | RUp => away
  | RCeiling => if 0 <? num then away else t
  | RFloor => if num <? 0 then away else t
  | RHalfUp => if den <=? 2 * rr then away else t
  | RHalfDown => if den <? 2 * rr then away else t
  | RHalfEven => if (den <? 2 * rr) || ((den =? 2 * rr) && Z.odd t) then away else t
  | R05Up => if Z.rem t 5 =? 0 then away else t
  end.

(* any non-zero denominator *)
Definition rndq (m : mode) (num den : Z) : Z :=
  if den <? 0 then rnd m (- num) (- den) else rnd m num den.
