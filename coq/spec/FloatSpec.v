(* FloatSpec.v — specification of the float conversions (C12, C13) and of the
   reduced ratio (C09), over exact integers and rationals (integer pairs). *)
From FP Require Import Machine RoundSpec ArithSpec.

(* ------------------------------------------------------------------ C12 *)
(* binary floating-point format: total bits, fraction bits, exponent bias *)
Record sffmt := mksffmt { sf_bits : Z; sf_frac : Z; sf_bias : Z }.
Definition SF64 := mksffmt 64 52 1023.
Definition SF32 := mksffmt 32 23 127.

(* The bit pattern of the float nearest to num/den (num, den > 0), ties to even,
   for values in the normal range: the unique (m, e) with 2^frac <= m < 2^(frac+1)
   (or the carry to the next binade) and m = RoundHalfEven(num / (den * 2^e)).
   [find_e] searches the exponent e with 2^frac <= floor(num / (den 2^e)) < 2^(frac+1)
   downwards from an upper bound. *)
Definition q_floor (num den e : Z) : Z :=
  if e <? 0 then (num * 2 ^ (- e)) / den else num / (den * 2 ^ e).
Fixpoint find_e (fuel : nat) (num den frac e : Z) : Z :=
  match fuel with
  | O => e
  | S f => if 2 ^ frac <=? q_floor num den e then e else find_e f num den frac (e - 1)
  end.
Definition nearest_float_bits (f : sffmt) (neg : bool) (num den : Z) : Z :=
  let frac := sf_frac f in
  let e := find_e 400 num den frac 140 in
  let m := if e <? 0 then rnd RHalfEven (num * 2 ^ (- e)) den else rnd RHalfEven num (den * 2 ^ e) in
  let '(m, e) := if m =? 2 ^ (frac + 1) then (2 ^ frac, e + 1) else (m, e) in
  (if neg then 2 ^ (sf_bits f - 1) else 0) + (e + frac + sf_bias f) * 2 ^ frac + (m - 2 ^ frac).

Definition to_float_spec (f : sffmt) (d : dec) : Z :=
  if coeff d =? 0 then 0   (* +0.0 *)
  else nearest_float_bits f (coeff d <? 0) (Z.abs (coeff d)) (10 ^ nfd d).

(* ------------------------------------------------------------------ C13 *)
Inductive ffs := FSOk (d : dec) | FSInf | FSNan | FSOverflow.

(* exact value of a finite bit pattern as sign * num / den *)
Definition float_value (f : sffmt) (bits : Z) : Z * Z :=
  let frac := sf_frac f in
  let ebits := sf_bits f - 1 - frac in
  let s := bits / 2 ^ (sf_bits f - 1) in
  let be := (bits / 2 ^ frac) mod 2 ^ ebits in
  let fr := bits mod 2 ^ frac in
  let '(m, e) := if be =? 0 then (fr, 1 - sf_bias f - frac) else (fr + 2 ^ frac, be - sf_bias f - frac) in
  let m := if s =? 1 then - m else m in
  if e <? 0 then (m, 2 ^ (- e)) else (m * 2 ^ e, 1).

Fixpoint strip_all (fuel : nat) (c n : Z) : Z * Z :=
  match fuel with
  | O => (c, n)
  | S f => if (0 <? n) && (c mod 10 =? 0) then strip_all f (c / 10) (n - 1) else (c, n)
  end.

Definition from_float_spec (f : sffmt) (bits : Z) : ffs :=
  let frac := sf_frac f in
  let ebits := sf_bits f - 1 - frac in
  let be := (bits / 2 ^ frac) mod 2 ^ ebits in
  let fr := bits mod 2 ^ frac in
  if be =? 2 ^ ebits - 1 then (if fr =? 0 then FSInf else FSNan) else
  let '(num, den) := float_value f bits in
  (* nearest 18-digit Decimal, half to even, without trailing fractional zeros *)
  let r := rnd RHalfEven (num * 10 ^ 18) den in
  let '(c, n) := if r =? 0 then (0, 0) else strip_all 18 r 18 in
  if in_range I128 c then FSOk (mkdec c n) else FSOverflow.

(* ------------------------------------------------------------------ C09 *)
Definition ratio_spec (d : dec) : Z * Z :=
  let g := Z.gcd (coeff d) (10 ^ nfd d) in
  (coeff d / g, 10 ^ nfd d / g).
