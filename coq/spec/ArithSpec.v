(* ArithSpec.v — specification of the Decimal operations, written from the
   property statements (C01-C05, C08, C10, C14, C15) over exact integers; a
   Decimal stands for the rational coeff / 10^nfd.  Nothing here refers to the
   model.  For every operation the specification is an acceptance predicate on
   observable outcomes [out]. *)
From FP Require Import Machine RoundSpec Out.

Definition MINC : Z := - 2 ^ 127.

(* what a specification demands of an operation's outcome *)
Inductive sres :=
| SVal (d : dec)          (* exactly this Decimal *)
| SFail                   (* the failure signal: panic (operator) / None (checked_) *)
| SEither (d : dec)       (* this Decimal or the failure signal (coefficient = -2^127, see DESIGN §2) *)
| SValue (c p : Z)        (* any Decimal of value c / 10^p with at most p fractional digits *)
| SValueOrFail (c p : Z). (* the same, or the failure signal *)

Definition veq (c p : Z) (d : dec) : bool :=
  (coeff d * 10 ^ p =? c * 10 ^ (nfd d)) && (0 <=? nfd d) && (nfd d <=? p).

(* panicking operator *)
Definition acc_op (s : sres) (o : out) : bool :=
  match s, o with
  | SVal d, OV e => dec_eqb d e
  | SFail, OP => true
  | SEither d, OV e => dec_eqb d e
  | SEither _, OP => true
  | SValue c p, OV e => veq c p e
  | SValueOrFail c p, OV e => veq c p e
  | SValueOrFail _ _, OP => true
  | _, _ => false
  end.
(* checked_ variant: None is the failure signal, a panic is never accepted *)
Definition acc_chk (s : sres) (o : out) : bool :=
  match s, o with
  | SVal d, OV e => dec_eqb d e
  | SFail, ON => true
  | SEither d, OV e => dec_eqb d e
  | SEither _, ON => true
  | SValue c p, OV e => veq c p e
  | SValueOrFail c p, OV e => veq c p e
  | SValueOrFail _ _, ON => true
  | _, _ => false
  end.

(* an exact (unrounded) coefficient must fit the i128 *)
Definition exact (c n : Z) : sres := if in_range I128 c then SVal (mkdec c n) else SFail.
(* a rounded coefficient: representable in Decimal::MIN..=MAX, or -2^127, or not *)
Definition classify (c n : Z) : sres :=
  if Z.abs c <=? MAXC then SVal (mkdec c n)
  else if c =? MINC then SEither (mkdec c n) else SFail.

Definition is_zero (d : dec) : bool := coeff d =? 0.
Definition is_one (d : dec) : bool := coeff d =? 10 ^ nfd d.

(* ---------- C01 ---------- *)
Definition addsub_spec (sub : bool) (x y : dec) : sres :=
  let p := Z.max (nfd x) (nfd y) in
  let a := coeff x * 10 ^ (p - nfd x) in
  let b := coeff y * 10 ^ (p - nfd y) in
  let s := if sub then a - b else a + b in
  if in_range I128 a && in_range I128 b && in_range I128 s then SVal (mkdec s p) else SFail.

(* ---------- C02 ---------- *)
Definition mul_spec (m : mode) (x y : dec) : sres :=
  if is_zero x || is_zero y then SVal DZERO
  else if is_one y then SVal x
  else if is_one x then SVal y
  else
    let s := nfd x + nfd y in
    if s <=? 18 then exact (coeff x * coeff y) s
    else classify (rnd m (coeff x * coeff y) (10 ^ (s - 18))) 18.

Definition checked_mul_spec (x y : dec) : sres :=
  if is_zero x || is_zero y then SVal DZERO
  else if is_one y then SVal x
  else if is_one x then SVal y
  else
    let s := nfd x + nfd y in
    if s <=? 18 then exact (coeff x * coeff y) s else SFail.

(* Decimal by integer: exact, the Decimal's scale, no short-cuts *)
Definition mul_int_spec (d : dec) (i : Z) : sres := exact (coeff d * i) (nfd d).

(* ---------- C03 ---------- *)
(* strip trailing fractional zeros *)
Fixpoint strip (fuel : nat) (c n : Z) : Z * Z :=
  match fuel with
  | O => (c, n)
  | S f => if (0 <? n) && (c mod 10 =? 0) then strip f (c / 10) (n - 1) else (c, n)
  end.
Definition normal (c n : Z) : dec :=
  if c =? 0 then DZERO else let '(c', n') := strip 18 c n in mkdec c' n'.
Definition map_sres (f : dec -> dec) (s : sres) : sres :=
  match s with SVal d => SVal (f d) | SEither d => SEither (f d) | s => s end.

Definition div_spec (m : mode) (x y : dec) : sres :=
  if is_zero y then SFail
  else if is_zero x then SVal DZERO
  else if is_one y then SVal x
  else
    let r := rndq m (coeff x * 10 ^ (18 + nfd y)) (coeff y * 10 ^ nfd x) in
    map_sres (fun d => normal (coeff d) (nfd d)) (classify r 18).

(* ---------- C04 ---------- *)
Definition mul_rounded_spec (m : mode) (x y : dec) (n : Z) : sres :=
  if 18 <? n then SFail
  else if is_zero x || is_zero y then SVal DZERO
  else
    let s := nfd x + nfd y in
    if s <=? n then exact (coeff x * coeff y) s
    else classify (rnd m (coeff x * coeff y) (10 ^ (s - n))) n.

Definition div_rounded_spec (m : mode) (x y : dec) (n : Z) : sres :=
  if 18 <? n then SFail
  else if is_zero y then SFail
  else if is_zero x then SVal DZERO
  else classify (rndq m (coeff x * 10 ^ (n + nfd y)) (coeff y * 10 ^ nfd x)) n.

(* the integer multiple k * q nearest to x, in any representation of that value with
   at most q's fractional digits.  Failure is required when the value is not
   representable at all, and permitted when its coefficient at q's scale does not fit
   (the result is formed by a multiplication at that scale, cf. C02) *)
Definition quantize_spec (m : mode) (x q : dec) : sres :=
  if is_zero q then SFail
  else
    let k := rndq m (coeff x * 10 ^ nfd q) (coeff q * 10 ^ nfd x) in
    let c := k * coeff q in
    if Z.abs c <=? MAXC then SValue c (nfd q)
    else
      let '(c', _) := strip 18 c (nfd q) in
      if (Z.abs c' <=? MAXC) || (c =? MINC) then SValueOrFail c (nfd q) else SFail.

(* ---------- C05 ---------- *)
Definition round_spec (m : mode) (d : dec) (n : Z) : option dec :=
  if n >=? nfd d then Some d else
  let r := rnd m (coeff d) (10 ^ (nfd d - n)) in
  if n >=? 0 then Some (mkdec r n)
  else let c := r * 10 ^ (- n) in
       if in_range I128 c then Some (mkdec c 0) else None.
Definition round_sres (m : mode) (d : dec) (n : Z) : sres :=
  match round_spec m d n with Some r => SVal r | None => SFail end.

Definition sig {A} (o : option A) : res A :=
  match o with Some a => Val a | None => Panic end.

(* ---------- C10 ---------- *)
Definition rem_spec (x y : dec) : sres :=
  if is_zero y then SFail
  else
    let p := Z.max (nfd x) (nfd y) in
    let a := coeff x * 10 ^ (p - nfd x) in
    let b := coeff y * 10 ^ (p - nfd y) in
    let r := Z.rem a b in
    if (nfd x <? nfd y) && negb (in_range I128 a) then SValueOrFail r p else SValue r p.

(* ---------- C08 ---------- *)
Definition cmp_spec (x y : dec) : comparison :=
  Z.compare (coeff x * 10 ^ nfd y) (coeff y * 10 ^ nfd x).
Definition eq_spec (x y : dec) : bool :=
  match cmp_spec x y with Eq => true | _ => false end.

(* ---------- C15 ---------- *)
(* floor(d), ceil(d), trunc(d) as integers; fract as coefficient at d's scale *)
Definition floor_spec (d : dec) : Z := coeff d / 10 ^ nfd d.
Definition ceil_spec (d : dec) : Z := - ((- coeff d) / 10 ^ nfd d).
Definition trunc_spec (d : dec) : Z := Z.quot (coeff d) (10 ^ nfd d).
Definition fract_spec (d : dec) : Z := Z.rem (coeff d) (10 ^ nfd d).
(* floor(log10 |c|) for c <> 0, by search *)
Fixpoint ilog10_aux (fuel : nat) (v acc : Z) : Z :=
  match fuel with
  | O => acc
  | S f => if v <? 10 then acc else ilog10_aux f (v / 10) (acc + 1)
  end.
Definition ilog10 (v : Z) : Z := ilog10_aux 60 v 0.
Definition magnitude_spec (d : dec) : Z :=
  if coeff d =? 0 then 0 else ilog10 (Z.abs (coeff d)) - nfd d.

(* ---------- C14 ---------- *)
Inductive toint_s := TSOk (v : Z) | TSNotInt | TSRange.
Definition to_int_spec (t : ity) (d : dec) : toint_s :=
  if coeff d mod 10 ^ nfd d =? 0 then
    let v := coeff d / 10 ^ nfd d in
    if in_range t v then TSOk v else TSRange
  else TSNotInt.
