(* ArithSpec.v — specification of the Decimal operations, written from the
   property statements over exact integers.  [None] is the overflow signal
   (panic for operators, None for checked_ variants). *)
From FP Require Import Machine RoundSpec.

(* C05: round to n fractional digits, n possibly negative *)
Definition round_spec (m : mode) (d : dec) (n : Z) : option dec :=
  if n >=? nfd d then Some d else
  let r := rnd m (coeff d) (10 ^ (nfd d - n)) in
  if n >=? 0 then Some (mkdec r n)
  else let c := r * 10 ^ (- n) in
       if in_range I128 c then Some (mkdec c 0) else None.

Definition sig {A} (o : option A) : res A :=
  match o with Some a => Val a | None => Panic end.
