(* Threads.v — model of the thread-local default rounding mode
   (fpdec-core/src/rounding.rs: DFLT_ROUNDING_MODE, RoundingMode::default,
   RoundingMode::set_default) and of the way rounding operations read it.
   A history is a list of events in the order in which they take effect; each
   event belongs to a thread.  The store maps a thread id to the content of its
   thread-local cell; a thread that never touched its cell is absent and reads
   the initial value INITIAL_MODE (from the source). *)
From FP Require Import Machine SrcConsts Pow10 Rounding Arith Round Format.

Inductive tevent :=
| TSet (t : Z) (m : mode)                 (* RoundingMode::set_default(m) on thread t *)
| TGet (t : Z)                            (* RoundingMode::default() on thread t *)
| TRound (t : Z) (d : dec) (n : Z)        (* d.round(n) on thread t *)
| TDivR (t : Z) (x y : dec) (n : Z)       (* x.div_rounded(y, n) on thread t *)
| TMul (t : Z) (x y : dec)                (* x * y on thread t *)
| TDiv (t : Z) (x y : dec)                (* x / y on thread t *)
| TMulR (t : Z) (x y : dec) (n : Z)       (* x.mul_rounded(y, n) on thread t *)
| TFmt (t : Z) (d : dec) (p : Z).         (* format!("{:.p$}", d) on thread t *)

Definition tid (e : tevent) : Z :=
  match e with TSet t _ | TGet t | TRound t _ _ | TDivR t _ _ _ | TMul t _ _ | TDiv t _ _ | TMulR t _ _ _ | TFmt t _ _ => t end.

Inductive tobs :=
| ObsNone
| ObsMode (m : mode)
| ObsDec (r : res dec)
| ObsStr (r : res (list Z)).

Definition store := list (Z * mode).
Fixpoint lookup (s : store) (t : Z) : mode :=
  match s with
  | (t', m) :: s' => if t' =? t then m else lookup s' t
  | [] => INITIAL_MODE
  end.
Definition update (s : store) (t : Z) (m : mode) : store := (t, m) :: s.

(* every rounding entry point passes `None` to round_quot, which reads the
   calling thread's cell *)
Definition tstep (pf : profile) (s : store) (e : tevent) : store * tobs :=
  match e with
  | TSet t m => (update s t m, ObsNone)
  | TGet t => (s, ObsMode (lookup s t))
  | TRound t d n => (s, ObsDec (dec_round pf (lookup s t) d n))
  | TDivR t x y n => (s, ObsDec (dec_div_rounded pf (lookup s t) x y n))
  | TMul t x y => (s, ObsDec (dec_mul pf (lookup s t) x y))
  | TDiv t x y => (s, ObsDec (dec_div pf (lookup s t) x y))
  | TMulR t x y n => (s, ObsDec (dec_mul_rounded pf (lookup s t) x y n))
  | TFmt t d p => (s, ObsStr (display pf (lookup s t) (mkfmt [32] AUnknown false false false None (Some p)) d))
  end.

Fixpoint trun (pf : profile) (s : store) (h : list tevent) : list (Z * tobs) :=
  match h with
  | [] => []
  | e :: h' => let '(s', o) := tstep pf s e in (tid e, o) :: trun pf s' h'
  end.

(* what one thread would observe running its own events alone, from the initial mode *)
Fixpoint trun_single (pf : profile) (cur : mode) (h : list tevent) : list tobs :=
  match h with
  | [] => []
  | e :: h' =>
      match e with
      | TSet _ m => ObsNone :: trun_single pf m h'
      | TGet _ => ObsMode cur :: trun_single pf cur h'
      | TRound _ d n => ObsDec (dec_round pf cur d n) :: trun_single pf cur h'
      | TDivR _ x y n => ObsDec (dec_div_rounded pf cur x y n) :: trun_single pf cur h'
      | TMul _ x y => ObsDec (dec_mul pf cur x y) :: trun_single pf cur h'
      | TDiv _ x y => ObsDec (dec_div pf cur x y) :: trun_single pf cur h'
      | TMulR _ x y n => ObsDec (dec_mul_rounded pf cur x y n) :: trun_single pf cur h'
      | TFmt _ d p => ObsStr (display pf cur (mkfmt [32] AUnknown false false false None (Some p)) d) :: trun_single pf cur h'
      end
  end.

Definition proj_events (t : Z) (h : list tevent) : list tevent := filter (fun e => tid e =? t) h.
Definition proj_obs (t : Z) (l : list (Z * tobs)) : list tobs :=
  map snd (filter (fun p => fst p =? t) l).
