(* Rounding.v — model of fpdec-core/src/rounding.rs and i128_div_mod_floor.
   Rust item                         Gallina
   i128_div_mod_floor(x, y)          i128_div_mod_floor pf x y
   round_quot(quot, rem, divisor, m) round_quot pf quot rem divisor m   (Option<i128>)
   i128_div_rounded(n, d, None)      i128_div_rounded pf n d m
   i128_shifted_div_rounded(n,p,d,None)     i128_shifted_div_rounded pf n p d m      (Option<i128>)
   i128_mul_div_ten_pow_rounded(x,y,p,None) i128_mul_div_ten_pow_rounded pf x y p m  (Option<i128>)
   The argument [m] is the value the code obtains from RoundingMode::default()
   (every caller in the crate passes `None`). *)
From FP Require Import Machine SrcConsts Pow10 WideDiv.

Definition i128_div_mod_floor (pf : profile) (x y : Z) : res (Z * Z) :=
  q <- t_div I128 x y ;;
  r <- t_rem I128 x y ;;
  if ((r >? 0) && (y <? 0)) || ((r <? 0) && (y >? 0)) then
    q' <- ck_sub pf I128 q 1 ;;
    r' <- ck_add pf I128 r y ;;
    Val (q', r')
  else Val (q, r).

(* quot.checked_add(1) *)
Definition incr (quot : Z) : res (option Z) := Val (checked I128 (quot + 1)).
Definition keep (quot : Z) : res (option Z) := Val (Some quot).

Definition round_quot (pf : profile) (quot rem divisor : Z) (m : mode) : res (option Z) :=
  if rem =? 0 then keep quot else
  match m with
  | R05Up =>
      (* quot >= 0 && quot % 5 == 0 || quot < 0 && (quot + 1) % 5 != 0 *)
      c1 <- (if quot >=? 0 then r <- t_rem I128 quot 5 ;; Val (r =? 0) else Val false) ;;
      c <- (if c1 : bool then Val true
            else if quot <? 0 then
                   q1 <- ck_add pf I128 quot 1 ;;
                   r <- t_rem I128 q1 5 ;;
                   Val (negb (r =? 0))
                 else Val false) ;;
      if c : bool then incr quot else keep quot
  | RCeiling => incr quot
  | RDown => if quot <? 0 then incr quot else keep quot
  | RFloor => keep quot
  | RHalfDown =>
      rem_doubled <- ck_shl pf U128 rem 1 ;;
      if (rem_doubled >? divisor) || ((rem_doubled =? divisor) && (quot <? 0))
      then incr quot else keep quot
  | RHalfEven =>
      rem_doubled <- ck_shl pf U128 rem 1 ;;
      c <- (if rem_doubled >? divisor then Val true
            else if rem_doubled =? divisor then r <- t_rem I128 quot 2 ;; Val (negb (r =? 0))
                 else Val false) ;;
      if c : bool then incr quot else keep quot
  | RHalfUp =>
      rem_doubled <- ck_shl pf U128 rem 1 ;;
      if (rem_doubled >? divisor) || ((rem_doubled =? divisor) && (quot >=? 0))
      then incr quot else keep quot
  | RUp => if quot >=? 0 then incr quot else keep quot
  end.

Definition i128_div_rounded (pf : profile) (divident divisor : Z) (m : mode) : res Z :=
  '(dd, dv) <- (if divisor <? 0
                then a <- ck_neg pf I128 divident ;; b <- ck_neg pf I128 divisor ;; Val (a, b)
                else Val (divident, divisor)) ;;
  '(quot, rem) <- i128_div_mod_floor pf dd dv ;;
  o <- round_quot pf quot (cast U128 rem) (cast U128 dv) m ;;
  match o with
  | Some q => Val q
  | None => Panic   (* unreachable!() *)
  end.

Definition i128_shifted_div_rounded (pf : profile) (divident p divisor : Z) (m : mode) : res (option Z) :=
  '(dd, dv) <- (if divisor <? 0
                then a <- ck_neg pf I128 divident ;; b <- ck_neg pf I128 divisor ;; Val (a, b)
                else Val (divident, divisor)) ;;
  o <- i128_shifted_div_mod_floor pf dd p dv ;;
  match o with
  | None => Val None
  | Some (quot, rem) => round_quot pf quot (cast U128 rem) (cast U128 dv) m
  end.

Definition i128_mul_div_ten_pow_rounded (pf : profile) (x y p : Z) (m : mode) : res (option Z) :=
  divisor <- ten_pow p ;;
  o <- i256_div_mod_floor pf x y divisor ;;
  match o with
  | None => Val None
  | Some (quot, rem) => round_quot pf quot (cast U128 rem) (cast U128 divisor) m
  end.
