(* Unops.v — model of src/unops.rs, Decimal::magnitude and the log10 helpers
   of fpdec-core/src/lib.rs.
   Rust item                         Gallina
   DivModInt::div_floor / div_ceil   div_floor / div_ceil
   Neg, abs, floor, ceil, trunc      dec_neg / dec_abs / dec_floor / dec_ceil / dec_trunc
   (fract is in Arith.v)
   less_than_5, u32, u64, u128       log_lt5 / log_u32 / log_u64 / log_u128
   i128_magnitude                    i128_magnitude
   Decimal::magnitude                dec_magnitude *)
From FP Require Import Machine SrcConsts Pow10.

Definition div_floor (pf : profile) (a b : Z) : res Z :=
  q <- t_div I128 a b ;; r <- t_rem I128 a b ;;
  if ((r >? 0) && (b <? 0)) || ((r <? 0) && (b >? 0)) then ck_sub pf I128 q 1 else Val q.
Definition div_ceil (pf : profile) (a b : Z) : res Z :=
  q <- t_div I128 a b ;; r <- t_rem I128 a b ;;
  if ((r >? 0) && (b >? 0)) || ((r <? 0) && (b <? 0)) then ck_add pf I128 q 1 else Val q.

Definition dec_neg (pf : profile) (d : dec) : res dec :=
  c <- ck_neg pf I128 (coeff d) ;; Val (mkdec c (nfd d)).
Definition dec_abs (pf : profile) (d : dec) : res dec :=
  c <- ck_abs pf I128 (coeff d) ;; Val (mkdec c (nfd d)).
Definition dec_floor (pf : profile) (d : dec) : res dec :=
  if nfd d =? 0 then Val d else
  t <- ten_pow (nfd d) ;; c <- div_floor pf (coeff d) t ;; Val (mkdec c 0).
Definition dec_ceil (pf : profile) (d : dec) : res dec :=
  if nfd d =? 0 then Val d else
  t <- ten_pow (nfd d) ;; c <- div_ceil pf (coeff d) t ;; Val (mkdec c 0).
Definition dec_trunc (d : dec) : res dec :=
  if nfd d =? 0 then Val d else
  t <- ten_pow (nfd d) ;; c <- t_div I128 (coeff d) t ;; Val (mkdec c 0).

(* (((val + C1) & (val + C2)) ^ ((val + C3) & (val + C4))) >> 17   on u32 *)
Definition log_lt5 (pf : profile) (val : Z) : res Z :=
  a <- ck_add pf U32 val LT5_C1 ;; b <- ck_add pf U32 val LT5_C2 ;;
  c <- ck_add pf U32 val LT5_C3 ;; d <- ck_add pf U32 val LT5_C4 ;;
  Val (Z.shiftr (Z.lxor (Z.land a b) (Z.land c d)) LT5_SHIFT).

Definition log_u32 (pf : profile) (val : Z) : res Z :=
  if val >=? LOG_U32_T then
    v <- t_div U32 val LOG_U32_T ;; l <- log_lt5 pf v ;; ck_add pf U32 5 l
  else log_lt5 pf val.

Definition log_u64 (pf : profile) (val : Z) : res Z :=
  '(val, log) <- (if val >=? LOG_U64_T1 then v <- t_div U64 val LOG_U64_T1 ;; Val (v, 10)
                  else Val (val, 0)) ;;
  '(val, log) <- (if val >=? LOG_U64_T2 then v <- t_div U64 val LOG_U64_T2 ;; l <- ck_add pf U32 log 5 ;; Val (v, l)
                  else Val (val, log)) ;;
  l <- log_lt5 pf (cast U32 val) ;; ck_add pf U32 log l.

Definition log_u128 (pf : profile) (val : Z) : res Z :=
  if val >=? LOG_U128_T1 then
    v <- t_div U128 val LOG_U128_T1 ;;
    l <- log_u32 pf (cast U32 v) ;; ck_add pf U32 32 l
  else
    '(val, log) <- (if val >=? LOG_U128_T2 then v <- t_div U128 val LOG_U128_T2 ;; Val (v, 16)
                    else Val (val, 0)) ;;
    l <- log_u64 pf (cast U64 val) ;; ck_add pf U32 log l.

Definition i128_magnitude (pf : profile) (i : Z) : res Z :=
  l <- log_u128 pf (Z.abs i) ;; Val (cast U8 l).

Definition dec_magnitude (pf : profile) (d : dec) : res Z :=
  if coeff d =? 0 then Val 0 else
  mg <- i128_magnitude pf (coeff d) ;;
  ck_sub pf I8 (cast I8 mg) (cast I8 (nfd d)).
