(* Format.v — model of src/format.rs and of the parts of core::fmt it calls.
   Strings are byte lists (ASCII, except a possibly multi-byte fill character).
   Rust item                                   Gallina
   format!("{}", i128) / i128::to_string       display_int           (core::fmt, modelled)
   format!("{:0width$}", non-negative i128)    pad0 width (digits_of v)
   impl From<Decimal> for String               string_from pf d
   impl_debug! (text inside Dec!(..))          debug_inner pf d
   impl Display for Decimal                    display pf m fmt d
   Formatter::pad_integral / padding           pad_integral          (core::fmt, modelled from the 1.95 source)
   The formatter state is the record [fmtspec]. *)
From FP Require Import Machine SrcConsts Pow10 Rounding.

(* decimal digits of a non-negative integer, most significant first; fuel 40 suffices below 10^40 *)
Fixpoint digits_aux (fuel : nat) (v : Z) (acc : list Z) : list Z :=
  match fuel with
  | O => acc
  | S f => let acc' := (48 + v mod 10) :: acc in
           if v <? 10 then acc' else digits_aux f (v / 10) acc'
  end.
Definition digits_of (v : Z) : list Z := digits_aux 45 v [].

Definition display_int (c : Z) : list Z :=
  if c <? 0 then 45 :: digits_of (- c) else digits_of c.

Definition zeros (n : Z) : list Z := repeat 48 (Z.to_nat n).
Definition pad0 (width : Z) (ds : list Z) : list Z :=
  zeros (width - Z.of_nat (length ds)) ++ ds.

(* "{}{}.{:0width$}" *)
Definition render_parts (neg : bool) (int frac width : Z) : list Z :=
  (if neg then [45] else []) ++ digits_of int ++ [46] ++ pad0 width (digits_of frac).

Definition string_from (pf : profile) (d : dec) : res (list Z) :=
  if nfd d =? 0 then Val (display_int (coeff d)) else
  a <- ck_abs pf I128 (coeff d) ;;
  t <- ten_pow (nfd d) ;;
  '(int, frac) <- i128_div_mod_floor pf a t ;;
  Val (render_parts (negb (coeff d >=? 0)) int frac (nfd d)).

Definition debug_inner := string_from.   (* impl_debug! has the same body inside "Dec!(" ")" *)

Inductive align := ALeft | ARight | ACenter | AUnknown.
Record fmtspec := mkfmt {
  f_fill : list Z;            (* UTF-8 bytes of the fill character, default " " *)
  f_align : align;
  f_plus : bool;              (* '+' flag *)
  f_alt : bool;               (* '#' flag *)
  f_zero : bool;              (* '0' flag: sign-aware zero padding *)
  f_width : option Z;
  f_prec : option Z
}.

Fixpoint rep_fill (n : nat) (fill : list Z) : list Z :=
  match n with O => [] | S n' => fill ++ rep_fill n' fill end.

(* Formatter::padding: (pre, post) fill counts *)
Definition padding (fs_align : align) (default : align) (pad : Z) : Z * Z :=
  let a := match fs_align with AUnknown => default | a => a end in
  match a with
  | ALeft => (0, pad)
  | ARight | AUnknown => (pad, 0)
  | ACenter => (pad / 2, (pad + 1) / 2)
  end.

(* Formatter::pad_integral(is_nonnegative, "", buf) *)
Definition pad_integral (fs : fmtspec) (is_nonneg : bool) (buf : list Z) : list Z :=
  let sign := if negb is_nonneg then [45] else if f_plus fs then [43] else [] in
  let width := Z.of_nat (length buf) + Z.of_nat (length sign) in
  match f_width fs with
  | None => sign ++ buf
  | Some min =>
      if width >=? min then sign ++ buf
      else if f_zero fs then
        (* sign first, then zeros, right aligned, whatever fill / alignment say *)
        sign ++ rep_fill (Z.to_nat (min - width)) [48] ++ buf
      else
        let '(pre, post) := padding (f_align fs) ARight (min - width) in
        rep_fill (Z.to_nat pre) (f_fill fs) ++ sign ++ buf ++ rep_fill (Z.to_nat post) (f_fill fs)
  end.

Definition display (pf : profile) (m : mode) (fs : fmtspec) (d : dec) : res (list Z) :=
  let prec := match f_prec fs with
              | Some p => cast U8 (Z.min p MAX_N_FRAC_DIGITS)
              | None => nfd d
              end in
  tmp <-
    (if nfd d =? 0 then
       a <- ck_abs pf I128 (coeff d) ;;
       if prec >? 0 then Val (display_int a ++ [46] ++ pad0 prec (digits_of 0))
       else Val (display_int a)
     else
       '(int, frac) <-
          (match Z.compare prec (nfd d) with
           | Eq => a <- ck_abs pf I128 (coeff d) ;; t <- ten_pow (nfd d) ;; i128_div_mod_floor pf a t
           | Lt => t <- ten_pow (nfd d - prec) ;;
                   c <- i128_div_rounded pf (coeff d) t m ;;
                   a <- ck_abs pf I128 c ;; t2 <- ten_pow prec ;; i128_div_mod_floor pf a t2
           | Gt => a <- ck_abs pf I128 (coeff d) ;; t <- ten_pow (nfd d) ;;
                   '(int, frac) <- i128_div_mod_floor pf a t ;;
                   t2 <- ten_pow (prec - nfd d) ;;
                   fr <- ck_mul pf I128 frac t2 ;; Val (int, fr)
           end) ;;
       if prec >? 0 then Val (display_int int ++ [46] ++ pad0 prec (display_int frac))
       else Val (display_int int)) ;;
  Val (pad_integral fs (coeff d >=? 0) tmp).
