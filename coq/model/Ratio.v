(* Ratio.v — model of src/as_integer_ratio.rs and impl Hash for Decimal.
   Rust item                       Gallina
   gcd_special(numer, denom_exp)   gcd_special pf numer denom_exp
   Decimal::as_integer_ratio       as_integer_ratio pf d     (numerator / denominator are its components)
   impl Hash for Decimal           hash_feed pf d            (the two i128 written to the Hasher) *)
From FP Require Import Machine SrcConsts Pow10.

(* while v != 0 { v >>= v.trailing_zeros(); if u > v { swap } v -= u } *)
Fixpoint gcd_loop (fuel : nat) (pf : profile) (u v : Z) : res Z :=
  match fuel with
  | O => Fuel
  | S f =>
      if v =? 0 then Val u else
      v1 <- ck_shr pf I128 v (tz 128 v) ;;
      let '(u2, v2) := if u >? v1 then (v1, u) else (u, v1) in
      v3 <- ck_sub pf I128 v2 u2 ;;
      gcd_loop f pf u2 v3
  end.

Definition gcd_special (pf : profile) (numer denom_exp : Z) : res Z :=
  _ <- assert (negb (numer =? 0)) ;;
  _ <- assert (denom_exp <=? 38) ;;
  u <- ck_abs pf I128 numer ;;
  let utz := tz 128 u in
  u <- ck_shr pf I128 u utz ;;
  t <- ten_pow (cast U8 denom_exp) ;;
  v <- ck_shr pf I128 t denom_exp ;;
  g <- gcd_loop 400 pf u v ;;
  ck_shl pf I128 g (Z.min utz denom_exp).

Definition as_integer_ratio (pf : profile) (d : dec) : res (Z * Z) :=
  if (nfd d =? 0) || (coeff d =? 0) then Val (coeff d, 1) else
  g <- gcd_special pf (coeff d) (nfd d) ;;
  n <- t_div I128 (coeff d) g ;;
  t <- ten_pow (nfd d) ;;
  m <- t_div I128 t g ;;
  Val (n, m).

Definition hash_feed := as_integer_ratio.
