(* WideDiv.v — model of the 256-bit helpers of fpdec-core/src/lib.rs.
   Rust item                              Gallina
   u128_hi / u128_lo                      u128_hi / u128_lo          (>> 64, & 0xffff_ffff_ffff_ffff)
   u128_msb(i)                            u128_msb pf i              (mask cascade + IDX_MAP)
   u128_mul_u128(x, y)                    u128_mul_u128 pf x y       -> (rh, rl)
   u256_idiv_u64(&mut xh,&mut xl,y)       u256_idiv_u64 pf xh xl y   -> (xh', xl', rem)
   u256_idiv_u128_special(..)             u256_idiv_u128_special pf xh xl y
   u256_idiv_u128(..)                     u256_idiv_u128 pf xh xl y
   i128_shifted_div_mod_floor(x,p,y)      i128_shifted_div_mod_floor pf x p y  -> option (q, r)
   i256_div_mod_floor(x1,x2,y)            i256_div_mod_floor pf x1 x2 y        -> option (q, r)
   In-place updates through &mut become returned triples.  Every plain
   operator is a [ck_*] combinator (overflow panics or wraps according to the
   profile); `wrapping_*` is [wrap]. *)
From FP Require Import Machine SrcConsts Pow10.

Definition B64 : Z := 2 ^ 64.
Definition MASK64 : Z := 2 ^ 64 - 1.

Definition u128_hi (u : Z) : Z := Z.shiftr u 64.
Definition u128_lo (u : Z) : Z := Z.land u MASK64.

(* one step of the mask cascade: if i & mask != 0 { n += k; i >>= k } *)
Definition msb_step (mask k : Z) (st : Z * Z) : Z * Z :=
  let '(n, i) := st in
  if Z.land i mask =? 0 then (n, i) else (n + k, Z.shiftr i k).

Definition u128_msb (pf : profile) (i : Z) : res Z :=
  _ <- dbg_assert pf (negb (i =? 0)) ;;
  let st := msb_step (2 ^ 128 - 2 ^ 64) 64 (0, i) in
  let st := msb_step (2 ^ 64 - 2 ^ 32) 32 st in
  let st := msb_step (2 ^ 32 - 2 ^ 16) 16 st in
  let st := msb_step (2 ^ 16 - 2 ^ 8) 8 st in
  let st := msb_step (2 ^ 8 - 2 ^ 4) 4 st in
  let '(n, i') := st in
  idx <- index MSB_IDX_MAP i' ;;
  s <- ck_add pf U8 n idx ;;
  ck_sub pf U8 s 1.

Definition u128_mul_u128 (pf : profile) (x y : Z) : res (Z * Z) :=
  let xh := u128_hi x in let xl := u128_lo x in
  let yh := u128_hi y in let yl := u128_lo y in
  t <- ck_mul pf U128 xl yl ;;
  let rl := u128_lo t in
  a <- ck_mul pf U128 xl yh ;;
  t <- ck_add pf U128 a (u128_hi t) ;;
  let rh := u128_hi t in
  a <- ck_mul pf U128 xh yl ;;
  t <- ck_add pf U128 a (u128_lo t) ;;
  s <- ck_shl pf U128 (u128_lo t) 64 ;;
  rl <- ck_add pf U128 rl s ;;
  a <- ck_mul pf U128 xh yh ;;
  b <- ck_add pf U128 a (u128_hi t) ;;
  rh <- ck_add pf U128 rh b ;;
  Val (rh, rl).

(* (r << 64) + w  *)
Definition shl64_add (pf : profile) (r w : Z) : res Z :=
  s <- ck_shl pf U128 r 64 ;; ck_add pf U128 s w.

Definition u256_idiv_u64 (pf : profile) (xh xl y : Z) : res (Z * Z * Z) :=
  if y =? 1 then Val (xh, xl, 0) else
  let th := u128_hi xh in
  r <- t_rem U128 th y ;;
  tl <- shl64_add pf r (u128_lo xh) ;;
  q1 <- t_div U128 th y ;;
  q2 <- t_div U128 tl y ;;
  xh' <- shl64_add pf q1 q2 ;;
  r <- t_rem U128 tl y ;;
  th <- shl64_add pf r (u128_hi xl) ;;
  r <- t_rem U128 th y ;;
  tl <- shl64_add pf r (u128_lo xl) ;;
  q1 <- t_div U128 th y ;;
  q2 <- t_div U128 tl y ;;
  xl' <- shl64_add pf q1 q2 ;;
  r <- t_rem U128 tl y ;;
  Val (xh', xl', r).

(* while q >= B || q * yn0 > rhat * B + xn { q -= 1; rhat += yn1; if rhat >= B { break } } *)
Fixpoint corr_loop (fuel : nat) (pf : profile) (q rhat yn1 yn0 xn : Z) : res (Z * Z) :=
  match fuel with
  | O => Fuel
  | S fuel' =>
      c <- (if q >=? B64 then Val true
            else a <- ck_mul pf U128 q yn0 ;;
                 b <- ck_mul pf U128 rhat B64 ;;
                 b <- ck_add pf U128 b xn ;;
                 Val (a >? b)) ;;
      if c : bool then
        q' <- ck_sub pf U128 q 1 ;;
        rhat' <- ck_add pf U128 rhat yn1 ;;
        if rhat' >=? B64 then Val (q', rhat')
        else corr_loop fuel' pf q' rhat' yn1 yn0 xn
      else Val (q, rhat)
  end.

Definition CORR_FUEL : nat := 4.

(* t.wrapping_mul(B).wrapping_add(w).wrapping_sub(q.wrapping_mul(y)) *)
Definition wsub_step (t w q y : Z) : Z :=
  wrap U128 (wrap U128 (wrap U128 (t * B64) + w) - wrap U128 (q * y)).

Definition u256_idiv_u128_special (pf : profile) (xh xl y : Z) : res (Z * Z * Z) :=
  _ <- dbg_assert pf (xh <? y) ;;
  msb <- u128_msb pf y ;;
  n_bits <- ck_sub pf U8 127 msb ;;
  y <- ck_shl pf U128 y n_bits ;;
  let yn1 := u128_hi y in
  let yn0 := u128_lo y in
  sh <- (if n_bits =? 0 then Val 0
         else k <- ck_sub pf U8 128 n_bits ;; ck_shr pf U128 xl k) ;;
  a <- ck_shl pf U128 xh n_bits ;;
  let xn32 := Z.lor a sh in
  xn10 <- ck_shl pf U128 xl n_bits ;;
  let xn1 := u128_hi xn10 in
  let xn0 := u128_lo xn10 in
  q1 <- t_div U128 xn32 yn1 ;;
  rhat <- t_rem U128 xn32 yn1 ;;
  '(q1, _) <- corr_loop CORR_FUEL pf q1 rhat yn1 yn0 xn1 ;;
  let t := wsub_step xn32 xn1 q1 y in
  q0 <- t_div U128 t yn1 ;;
  rhat <- t_rem U128 t yn1 ;;
  '(q0, _) <- corr_loop CORR_FUEL pf q0 rhat yn1 yn0 xn0 ;;
  a <- ck_mul pf U128 q1 B64 ;;
  xl' <- ck_add pf U128 a q0 ;;
  r <- ck_shr pf U128 (wsub_step t xn0 q0 y) n_bits ;;
  Val (0, xl', r).

Definition u256_idiv_u128 (pf : profile) (xh xl y : Z) : res (Z * Z * Z) :=
  if u128_hi y =? 0 then u256_idiv_u64 pf xh xl (cast U64 (u128_lo y))
  else if xh <? y then u256_idiv_u128_special pf xh xl y
  else
    t <- t_rem U128 xh y ;;
    '(_, xl', r) <- u256_idiv_u128_special pf t xl y ;;
    xh' <- t_div U128 xh y ;;
    Val (xh', xl', r).

Definition unsigned_abs (x : Z) : Z := Z.abs x.   (* i128::unsigned_abs : exact for every i128 *)

Definition i128_shifted_div_mod_floor (pf : profile) (x p y : Z) : res (option (Z * Z)) :=
  t <- ten_pow p ;;
  '(xh, xl) <- u128_mul_u128 pf (unsigned_abs x) (cast U128 t) ;;
  '(xh, xl, r) <- u256_idiv_u128 pf xh xl (unsigned_abs y) ;;
  if negb (xh =? 0) || (xl >? tmax I128) then Val None else
  let q := cast I128 xl in
  let r := cast I128 r in
  if x <? 0 then
    if y <? 0 then r' <- ck_neg pf I128 r ;; Val (Some (q, r'))
    else if r =? 0 then q' <- ck_neg pf I128 q ;; Val (Some (q', r))
    else
      q' <- ck_neg pf I128 q ;; q' <- ck_sub pf I128 q' 1 ;;
      r' <- ck_sub pf I128 y r ;;
      Val (Some (q', r'))
  else if y <? 0 then
    q' <- ck_neg pf I128 q ;; q' <- ck_sub pf I128 q' 1 ;;
    r' <- ck_sub pf I128 r y ;;
    Val (Some (q', r'))
  else Val (Some (q, r)).

Definition i256_div_mod_floor (pf : profile) (x1 x2 y : Z) : res (option (Z * Z)) :=
  _ <- dbg_assert pf (y >? 0) ;;
  '(xh, xl) <- u128_mul_u128 pf (unsigned_abs x1) (unsigned_abs x2) ;;
  '(xh, xl, r) <- u256_idiv_u128 pf xh xl (unsigned_abs y) ;;
  if negb (xh =? 0) || (xl >? tmax I128) then Val None else
  let q := cast I128 xl in
  let r := cast I128 r in
  if negb (Bool.eqb (x1 <? 0) (x2 <? 0)) then
    if r =? 0 then q' <- ck_neg pf I128 q ;; Val (Some (q', r))
    else
      q' <- ck_neg pf I128 q ;; q' <- ck_sub pf I128 q' 1 ;;
      r' <- ck_sub pf I128 y r ;;
      Val (Some (q', r'))
  else Val (Some (q, r)).
