(* RunMore.v — dispatch for strings, formatting, floats, ratio and thread histories
   (continuation of Run.v; same conventions). *)
From FP Require Import Machine SrcConsts Pow10 Rounding Arith Round Parser Format Floats Ratio Threads.
From FP Require Import RoundSpec Out ArithSpec StringSpec FloatSpec Run.

(* error kinds of ParseDecimalError / DecimalError *)
Definition E_EMPTY : Z := 1.
Definition E_INVALID : Z := 2.
Definition E_FRACLIMIT : Z := 3.
Definition E_POVERFLOW : Z := 4.
Definition E_INF : Z := 13.
Definition E_NAN : Z := 14.

Definition out_perr (e : perr) : out :=
  OE (match e with PEmpty => E_EMPTY | PInvalid => E_INVALID | PFracLimit => E_FRACLIMIT | POverflow => E_POVERFLOW end).
Definition out_pres (r : res (pres dec)) : out :=
  of_res (fun p => match p with POk d => OV d | PErr e => out_perr e end) r.

(* ---------------- strings ---------------- *)
Inductive sop := Sparse | Smacro | Score.

Definition run_str (pf : profile) (op : sop) (s : list Z) : out :=
  match op with
  | Sparse => out_pres (from_str pf s)
  | Smacro => out_pres (dec_macro pf s)
  | Score => of_res (fun p => match p with POk (c, e) => OQ c e | PErr e => out_perr e end) (str_to_dec pf s)
  end.

(* the property fixes only "Empty for the empty string, some other error otherwise" *)
Definition acc_parse (s : list Z) (o : out) : bool :=
  match parse_spec s, o with
  | PSOk d, OV e => dec_eqb d e
  | PSEmpty, OE k => k =? E_EMPTY
  | PSErr, OE k => negb (k =? E_EMPTY)
  | _, _ => false
  end.
(* Dec!: compiles to the constant from_str gives, fails to compile when from_str fails *)
Definition acc_macro (s : list Z) (o : out) : bool :=
  match parse_spec s, o with
  | PSOk d, OV e => dec_eqb d e
  | PSEmpty, OE _ | PSErr, OE _ => true
  | _, _ => false
  end.
Definition acc_str (op : sop) (s : list Z) (o : out) : bool :=
  match op with
  | Sparse => acc_parse s o
  | Smacro => acc_macro s o
  | Score => true
  end.
(* correspondence on parse outcomes ignores which non-Empty error it is *)
Definition canon_perr (o : out) : out :=
  match o with OE k => if k =? E_EMPTY then OE E_EMPTY else OE E_INVALID | o => o end.

Definition known_str (s : list Z) : Z :=
  if known_K2 s then 2 else if known_K4 s then 4 else 0.

(* ---------------- to_string / Debug / String::from ; formatting ---------------- *)
Definition run_tostring (pf : profile) (d : dec) : out := of_res OS (string_from pf d).
Definition acc_tostring (d : dec) (o : out) : bool := out_eqb o (OS (canon d)).
(* round trip: parse (to_string d) = d *)
Definition run_roundtrip (pf : profile) (d : dec) : out :=
  of_res (fun s => out_pres (from_str pf s)) (string_from pf d).
Definition acc_roundtrip (d : dec) (o : out) : bool := out_eqb o (OV d).

Definition align_of (a : Z) : align :=
  if a =? 1 then ALeft else if a =? 2 then ACenter else if a =? 3 then ARight else AUnknown.
Definition salign_of (a : Z) : salign :=
  if a =? 1 then SLeft else if a =? 2 then SCenter else if a =? 3 then SRight else SDefault.
Definition optz (z : Z) : option Z := if z <? 0 then None else Some z.

(* flags: fill bytes, align code 0..3, plus, alt, zero, width (-1 = none), precision (-1 = none) *)
Definition run_fmt (pf : profile) (m : mode) (fill : list Z) (a : Z) (plus alt zero : bool) (w p : Z) (d : dec) : out :=
  of_res OS (display pf m (mkfmt fill (align_of a) plus alt zero (optz w) (optz p)) d).
Definition acc_fmt (m : mode) (fill : list Z) (a : Z) (plus alt zero : bool) (w p : Z) (d : dec) (o : out) : bool :=
  out_eqb o (OS (fmt_spec m (mksfmt fill (salign_of a) plus alt zero (optz w) (optz p)) d)).
(* plain i128 with the same flags: validates the pad_integral model by itself *)
Definition run_fmt_int (fill : list Z) (a : Z) (plus alt zero : bool) (w : Z) (c : Z) : out :=
  OS (pad_integral (mkfmt fill (align_of a) plus alt zero (optz w) None) (c >=? 0) (digits_of (Z.abs c))).
Definition acc_fmt_int (fill : list Z) (a : Z) (plus alt zero : bool) (w : Z) (c : Z) (o : out) : bool :=
  out_eqb o (OS (pad_spec (mksfmt fill (salign_of a) plus alt zero (optz w) None)
                          (if c <? 0 then [45] else if plus then [43] else []) (sdigits_of (Z.abs c)))).

(* ---------------- floats ---------------- *)
Definition run_tofloat (pf : profile) (is64 : bool) (d : dec) : out :=
  of_res OF (dec_to_float pf (if is64 then F64 else F32) d).
Definition acc_tofloat (is64 : bool) (d : dec) (o : out) : bool :=
  out_eqb o (OF (to_float_spec (if is64 then SF64 else SF32) d)).

Definition out_ffres (r : res ffres) : out :=
  of_res (fun f => match f with FOk d => OV d | FInf => OE E_INF | FNan => OE E_NAN | FOverflow => OE E_OVERFLOW end) r.
Definition run_fromfloat (pf : profile) (is64 : bool) (bits : Z) : out :=
  out_ffres (try_from_float pf (if is64 then F64 else F32) bits).
Definition acc_fromfloat (is64 : bool) (bits : Z) (o : out) : bool :=
  out_eqb o (match from_float_spec (if is64 then SF64 else SF32) bits with
             | FSOk d => OV d | FSInf => OE E_INF | FSNan => OE E_NAN | FSOverflow => OE E_OVERFLOW end).

(* ---------------- ratio / hash ---------------- *)
Definition run_ratio (pf : profile) (d : dec) : out := of_res (fun '(n, m) => OQ n m) (as_integer_ratio pf d).
Definition acc_ratio (d : dec) (o : out) : bool := let '(n, m) := ratio_spec d in out_eqb o (OQ n m).

(* ---------------- thread histories ---------------- *)
Definition mode_index (m : mode) : Z :=
  match m with R05Up => 0 | RCeiling => 1 | RDown => 2 | RFloor => 3
             | RHalfDown => 4 | RHalfEven => 5 | RHalfUp => 6 | RUp => 7 end.

Definition enc_obs (o : tobs) : list Z :=
  match o with
  | ObsNone => []
  | ObsMode m => [100 + mode_index m]
  | ObsDec (Val d) => [1; coeff d; nfd d]
  | ObsDec _ => [2]
  | ObsStr (Val s) => 3 :: Z.of_nat (length s) :: s
  | ObsStr _ => [2]
  end.
(* observations in history order, each tagged with its thread *)
Definition enc_run (l : list (Z * tobs)) : list Z :=
  flat_map (fun '(t, o) => match enc_obs o with [] => [] | e => (200 + t) :: e end) l.

Definition run_thr (pf : profile) (h : list tevent) : out := OL (enc_run (trun pf [] h)).

(* specification: the mode in effect for an event is the one the SAME thread set
   last (RoundHalfEven if it never set one), whatever other threads did *)
Fixpoint last_set (t : Z) (rev_prefix : list tevent) : mode :=
  match rev_prefix with
  | TSet t' m :: r => if t' =? t then m else last_set t r
  | _ :: r => last_set t r
  | [] => RHalfEven
  end.
Definition obs_with (pf : profile) (cur : mode) (e : tevent) : tobs :=
  match e with
  | TSet _ _ => ObsNone
  | TGet _ => ObsMode cur
  | TRound _ d n => ObsDec (dec_round pf cur d n)
  | TDivR _ x y n => ObsDec (dec_div_rounded pf cur x y n)
  | TMul _ x y => ObsDec (dec_mul pf cur x y)
  | TDiv _ x y => ObsDec (dec_div pf cur x y)
  | TMulR _ x y n => ObsDec (dec_mul_rounded pf cur x y n)
  | TFmt _ d p => ObsStr (display pf cur (mkfmt [32] AUnknown false false false None (Some p)) d)
  end.
Fixpoint spec_thr (pf : profile) (rev_prefix : list tevent) (h : list tevent) : list (Z * tobs) :=
  match h with
  | [] => []
  | e :: h' => (tid e, obs_with pf (last_set (tid e) rev_prefix) e) :: spec_thr pf (e :: rev_prefix) h'
  end.
Definition acc_thr (pf : profile) (h : list tevent) (o : out) : bool :=
  out_eqb o (OL (enc_run (spec_thr pf [] h))).
