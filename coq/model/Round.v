(* Round.v — model of src/round.rs (impl Round for Decimal).
   Rust item                    Gallina
   Decimal::round(self, n)      dec_round pf m d n          (n : i8)
   Decimal::checked_round       dec_checked_round pf m d n *)
From FP Require Import Machine SrcConsts Pow10 Rounding.

Definition dec_round (pf : profile) (m : mode) (d : dec) (n : Z) : res dec :=
  let p := cast I8 (nfd d) in
  if n >=? p then Val d else
  lim <- ck_sub pf I8 p ROUND_SHORTCUT ;;
  if n <? lim then
    unit <- i128_div_rounded pf (Z.sgn (coeff d)) 10 m ;;
    if unit =? 0 then Val DZERO else
    oc <- checked_mul_pow_ten unit (Z.abs n) ;;
    match oc with
    | Some c => Val (mkdec c 0)
    | None => Panic
    end
  else
    s <- ck_sub pf I8 p n ;;
    divisor <- ten_pow (cast U8 s) ;;
    c <- i128_div_rounded pf (coeff d) divisor m ;;
    if n >=? 0 then Val (mkdec c (cast U8 n)) else
    nn <- ck_neg pf I8 n ;;
    t <- ten_pow (cast U8 nn) ;;
    match checked I128 (c * t) with
    | Some c' => Val (mkdec c' 0)
    | None => Panic
    end.

Definition dec_checked_round (pf : profile) (m : mode) (d : dec) (n : Z) : res (option dec) :=
  let p := cast I8 (nfd d) in
  if n >=? p then Val (Some d) else
  lim <- ck_sub pf I8 p ROUND_SHORTCUT ;;
  if n <? lim then
    unit <- i128_div_rounded pf (Z.sgn (coeff d)) 10 m ;;
    if unit =? 0 then Val (Some DZERO) else
    oc <- checked_mul_pow_ten unit (Z.abs n) ;;
    Val (option_map (fun c => mkdec c 0) oc)
  else
    s <- ck_sub pf I8 p n ;;
    divisor <- ten_pow (cast U8 s) ;;
    c <- i128_div_rounded pf (coeff d) divisor m ;;
    if n >=? 0 then Val (Some (mkdec c (cast U8 n))) else
    nn <- ck_neg pf I8 n ;;
    t <- ten_pow (cast U8 nn) ;;
    Val (option_map (fun c' => mkdec c' 0) (checked I128 (c * t))).
