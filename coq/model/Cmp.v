(* Cmp.v — model of src/binops/cmp.rs and fpdec_core::checked_adjust_coeffs.
   Rust item                                          Gallina
   checked_adjust_coeffs(x,p,y,q)                     checked_adjust_coeffs
   impl_partial_eq!(Decimal, Decimal)                 dec_eq
   impl_partial_ord!(Decimal, Decimal)                dec_partial_cmp
   impl Ord for Decimal (partial_cmp().unwrap())      dec_cmp
   PartialOrd::{lt,le,gt,ge}, PartialEq::ne, Ord::{min,max} (core defaults)   dec_lt … dec_max
   impl_decimal_eq_uint!/signed_int!, impl_int_eq_decimal!                   di_eq / id_eq
   impl_decimal_cmp_signed_int!/uint!, impl_signed_int_cmp_decimal!/uint!    di_partial_cmp / id_partial_cmp
   is_negative / is_positive (impl_basics!)           is_negative / is_positive *)
From FP Require Import Machine SrcConsts Pow10.

Definition checked_adjust_coeffs (x p y q : Z) : res (option Z * option Z) :=
  match Z.compare p q with
  | Eq => Val (Some x, Some y)
  | Gt => o <- checked_mul_pow_ten y (p - q) ;; Val (Some x, o)
  | Lt => o <- checked_mul_pow_ten x (q - p) ;; Val (o, Some y)
  end.

Definition dec_eq (x y : dec) : res bool :=
  '(a, b) <- checked_adjust_coeffs (coeff x) (nfd x) (coeff y) (nfd y) ;;
  match a, b with
  | Some a, Some b => Val (a =? b)
  | _, _ => Val false
  end.
Definition dec_ne (x y : dec) : res bool := b <- dec_eq x y ;; Val (negb b).

Definition dec_partial_cmp (x y : dec) : res (option comparison) :=
  '(a, b) <- checked_adjust_coeffs (coeff x) (nfd x) (coeff y) (nfd y) ;;
  match a, b with
  | Some a, Some b => Val (Some (Z.compare a b))
  | None, Some _ => Val (Some (if coeff x >? 0 then Gt else Lt))
  | Some _, None => Val (Some (if coeff y <? 0 then Gt else Lt))
  | None, None => Val None
  end.

Definition dec_cmp (x y : dec) : res comparison :=
  o <- dec_partial_cmp x y ;; match o with Some c => Val c | None => Panic end.

Definition is_lt (o : option comparison) := match o with Some Lt => true | _ => false end.
Definition is_le (o : option comparison) := match o with Some Lt | Some Eq => true | _ => false end.
Definition is_gt (o : option comparison) := match o with Some Gt => true | _ => false end.
Definition is_ge (o : option comparison) := match o with Some Gt | Some Eq => true | _ => false end.

Definition dec_lt x y := o <- dec_partial_cmp x y ;; Val (is_lt o).
Definition dec_le x y := o <- dec_partial_cmp x y ;; Val (is_le o).
Definition dec_gt x y := o <- dec_partial_cmp x y ;; Val (is_gt o).
Definition dec_ge x y := o <- dec_partial_cmp x y ;; Val (is_ge o).
(* Ord::max(self, other) = if other < self { self } else { other }; min dually *)
Definition dec_max x y := b <- dec_lt y x ;; Val (if b : bool then x else y).
Definition dec_min x y := b <- dec_lt y x ;; Val (if b : bool then y else x).

Definition is_negative (d : dec) : bool := coeff d <? 0.
Definition is_positive (d : dec) : bool := coeff d >? 0.

(* Decimal == int : unsigned types first test the sign of the Decimal *)
Definition di_eq (t : ity) (d : dec) (i : Z) : res bool :=
  if negb (signed t) && is_negative d then Val false else
  o <- checked_mul_pow_ten i (nfd d) ;;
  match o with Some c => Val (coeff d =? c) | None => Val false end.
Definition id_eq (t : ity) (i : Z) (d : dec) : res bool := di_eq t d i.

Definition di_partial_cmp (t : ity) (d : dec) (i : Z) : res (option comparison) :=
  if signed t then
    o <- checked_mul_pow_ten i (nfd d) ;;
    match o with
    | Some c => Val (Some (Z.compare (coeff d) c))
    | None => Val (Some (if i >=? 0 then Lt else Gt))
    end
  else
    if is_negative d then Val (Some Lt) else
    o <- checked_mul_pow_ten i (nfd d) ;;
    match o with
    | Some c => Val (Some (Z.compare (coeff d) c))
    | None => Val (Some Lt)
    end.

Definition id_partial_cmp (t : ity) (i : Z) (d : dec) : res (option comparison) :=
  if signed t then
    o <- checked_mul_pow_ten i (nfd d) ;;
    match o with
    | Some c => Val (Some (Z.compare c (coeff d)))
    | None => Val (Some (if i <? 0 then Lt else Gt))
    end
  else
    if is_negative d then Val (Some Gt) else
    o <- checked_mul_pow_ten i (nfd d) ;;
    match o with
    | Some c => Val (Some (Z.compare c (coeff d)))
    | None => Val (Some Gt)
    end.
