(* Pow10.v — model of fpdec-core/src/powers_of_ten.rs.
   Rust item                 Gallina
   POWERS_OF_10              SrcConsts.POWERS_OF_10 (regenerated from the source)
   ten_pow(n)                ten_pow n           — slice index, panics out of bounds
   checked_ten_pow(n)        checked_ten_pow n
   mul_pow_ten(val, n)       mul_pow_ten val n   — checked_mul + explicit panic
   checked_mul_pow_ten       checked_mul_pow_ten *)
From FP Require Import Machine SrcConsts.

Definition ten_pow (n : Z) : res Z := index POWERS_OF_10 n.

Definition checked_ten_pow (n : Z) : res (option Z) :=
  if n >? CHECKED_TEN_POW_LIMIT then Val None
  else v <- index POWERS_OF_10 n ;; Val (Some v).

Definition mul_pow_ten (val n : Z) : res Z :=
  t <- ten_pow n ;;
  match checked I128 (val * t) with
  | Some v => Val v
  | None => Panic
  end.

Definition checked_mul_pow_ten (val n : Z) : res (option Z) :=
  ot <- checked_ten_pow n ;;
  match ot with
  | None => Val None
  | Some t => Val (checked I128 (val * t))
  end.
