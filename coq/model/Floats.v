(* Floats.v — model of src/into_float.rs and src/from_float.rs.
   Rust item                              Gallina
   trait Float { from_decimal }           from_decimal pf fmt d      -> bit pattern
   impl From<Decimal> for f64 / f32       dec_to_float pf fmt d
   `coeff as f64` (primitive cast)        int_to_float fmt c         (IEEE round-to-nearest-even, modelled)
   f64_decode / f32_decode                float_decode pf fmt bits
   approx_rational                        approx_rational pf n d
   TryFrom<f64> / TryFrom<f32>            try_from_float pf fmt bits *)
From FP Require Import Machine SrcConsts Pow10 Arith Unops.

Record ffmt := mkffmt { ff_bits : Z; ff_frac : Z; ff_bias : Z; ff_is64 : bool }.
Definition F64 : ffmt := mkffmt 64 52 1023 true.
Definition F32 : ffmt := mkffmt 32 23 127 false.

Definition sat_sub (a b : Z) : Z := if a <? b then 0 else a - b.   (* u32::saturating_sub *)

Definition from_decimal (pf : profile) (fm : ffmt) (d : dec) : res Z :=
  let add_bits := ff_frac fm + IF_EXTRA_BITS in
  let num := Z.abs (coeff d) in
  den <- ck pf U128 (10 ^ cast U32 (nfd d)) ;;
  let num_lz := lz 128 num in
  let den_lz := lz 128 den in
  s <- ck_add pf U32 num_lz add_bits ;;
  let num_shl := sat_sub s den_lz in
  let den_shl := sat_sub (sat_sub den_lz num_lz) add_bits in
  num <- ck_shl pf U128 num num_shl ;;
  den <- ck_shl pf U128 den den_shl ;;
  quot <- t_div U128 num den ;;
  rem <- t_rem U128 num den ;;
  let adj := if (128 - lz 128 quot) =? add_bits then 1 else 0 in
  mask <- index IF_MASK_EXTRA_BITS adj ;;
  rnd <- ck_shl pf U32 (cast U32 (Z.land quot mask)) adj ;;
  let rnd := Z.lor rnd (if rem =? 0 then 0 else 1) in
  k <- ck_sub pf U32 IF_EXTRA_BITS adj ;;
  q' <- ck_shr pf U128 quot k ;;
  let signif := cast U64 q' in
  e1 <- ck_sub pf I32 (cast I32 den_lz) (cast I32 num_lz) ;;
  exp <- ck_sub pf I32 e1 adj ;;
  e2 <- ck_add pf I32 (ff_bias fm) exp ;;
  e3 <- ck_sub pf I32 e2 1 ;;
  sh <- ck_shl pf U64 (cast U64 e3) (ff_frac fm) ;;
  bits <- ck_add pf U64 signif sh ;;
  let up := (rnd >? IF_TIE) || ((rnd =? IF_TIE) && (Z.land signif 1 =? 1)) in
  bits <- ck_add pf U64 bits (if up then 1 else 0) ;;
  sg <- ck_shl pf U64 (if coeff d <? 0 then 1 else 0) (ff_bits fm - 1) ;;
  let bits := Z.lor bits sg in
  Val (if ff_is64 fm then bits else cast U32 bits).

(* `i128 as f64` / `as f32`: IEEE-754 round to nearest, ties to even, of an integer
   (Rust reference semantics of the numeric cast; modelled, validated by the tie) *)
Definition rne_bits (fm : ffmt) (neg : bool) (num den : Z) : Z :=
  (* num, den > 0: the float nearest to num/den *)
  let p := ff_frac fm + 1 in
  let s0 := Z.log2 num - Z.log2 den - p in
  let scaled s := if s <? 0 then (num * 2 ^ (- s), den) else (num, den * 2 ^ s) in
  let fl s := let '(a, b) := scaled s in a / b in
  let s := if fl (s0 + 1) <? 2 ^ (p - 1) then s0 else s0 + 1 in
  let s := if fl s <? 2 ^ (p - 1) then s - 1 else s in
  let '(a, b) := scaled s in
  let q := a / b in
  let r := a mod b in
  let m := if (b <? 2 * r) || ((b =? 2 * r) && Z.odd q) then q + 1 else q in
  let '(m, s) := if m =? 2 ^ p then (2 ^ (p - 1), s + 1) else (m, s) in
  let e := s + p - 1 + ff_bias fm in
  (if neg then 2 ^ (ff_bits fm - 1) else 0) + e * 2 ^ ff_frac fm + (m - 2 ^ (p - 1)).

Definition int_to_float (fm : ffmt) (c : Z) : Z :=
  if c =? 0 then 0 else rne_bits fm (c <? 0) (Z.abs c) 1.

Definition dec_to_float (pf : profile) (fm : ffmt) (d : dec) : res Z :=
  if (nfd d =? 0) || (coeff d =? 0) then Val (int_to_float fm (coeff d))
  else from_decimal pf fm d.

(* ---- from float ---- *)
Definition exp_mask (fm : ffmt) : Z := 2 ^ (ff_bits fm - 1 - ff_frac fm) - 1.   (* 0x7ff / 0xff *)

Definition float_decode (pf : profile) (fm : ffmt) (bits : Z) : res (Z * Z * Z) :=
  let sign_bit := cast U8 (Z.shiftr bits (ff_bits fm - 1)) in
  let biased := cast I16 (Z.land (Z.shiftr bits (ff_frac fm)) (exp_mask fm)) in
  _ <- assert (negb (biased =? exp_mask fm)) ;;
  let fraction := Z.land bits (2 ^ ff_frac fm - 1) in
  if biased =? 0 then Val (0, 0, 0) else
  e1 <- ck_sub pf I16 biased (ff_bias fm) ;;
  e <- ck_sub pf I16 e1 (ff_frac fm) ;;
  sb <- ck_shl pf U8 sign_bit 1 ;;
  sg <- ck_sub pf I8 1 (cast I8 sb) ;;
  Val (Z.lor fraction (2 ^ ff_frac fm), e, sg).

Fixpoint approx_loop (fuel : nat) (pf : profile) (divisor coeff rem nfd magn : Z) : res (Z * Z * Z) :=
  match fuel with
  | O => Fuel
  | S f =>
      if negb (rem =? 0) && (nfd <? MAX_N_FRAC_DIGITS) && (magn <? FF_MAGN_I128_MAX - 1) then
        rem <- ck_mul pf I128 rem 10 ;;
        quot <- t_div I128 rem divisor ;;
        rem <- t_rem I128 rem divisor ;;
        nfd <- ck_add pf U8 nfd 1 ;;
        magn <- ck_add pf U8 magn 1 ;;
        c10 <- ck_mul pf I128 coeff 10 ;;
        coeff <- ck_add pf I128 c10 quot ;;
        approx_loop f pf divisor coeff rem nfd magn
      else Val (coeff, rem, nfd)
  end.

Definition approx_rational (pf : profile) (divident divisor : Z) : res (Z * Z) :=
  _ <- assert (divisor >? 0) ;;
  if divisor =? 1 then Val (divident, 0) else
  if divident =? 0 then Val (0, 0) else
  a <- ck_abs pf I128 divident ;;
  coeff <- t_div I128 a divisor ;;
  rem <- t_rem I128 a divisor ;;
  magn <- i128_magnitude pf coeff ;;
  '(coeff, rem, nfd) <- approx_loop 64 pf divisor coeff rem 0 magn ;;
  rem <- ck_shl pf I128 rem 1 ;;
  coeff <- (if (rem >? divisor) || ((rem =? divisor) && (Z.land coeff 1 =? 1))
            then ck_add pf I128 coeff 1 else Val coeff) ;;
  coeff <- ck_mul pf I128 coeff (Z.sgn divident) ;;
  normalize coeff nfd.

Inductive ffres := FOk (d : dec) | FInf | FNan | FOverflow.

Definition try_from_float (pf : profile) (fm : ffmt) (bits : Z) : res ffres :=
  let biased := Z.land (Z.shiftr bits (ff_frac fm)) (exp_mask fm) in
  let fraction := Z.land bits (2 ^ ff_frac fm - 1) in
  if (biased =? exp_mask fm) && (fraction =? 0) then Val FInf else
  if (biased =? exp_mask fm) then Val FNan else
  '(significand, exponent, sign) <- float_decode pf fm bits ;;
  if exponent <? - FF_MIN_EXP then Val (FOk DZERO) else
  if exponent <? 0 then
    numer <- ck_mul pf I128 sign significand ;;
    ne <- ck_neg pf I16 exponent ;;
    denom <- ck_shl pf I128 1 ne ;;
    '(c, n) <- approx_rational pf numer denom ;;
    Val (FOk (mkdec c n))
  else if ff_is64 fm && (exponent >=? 128) then Val FOverflow
  else
    numer <- ck_mul pf I128 sign significand ;;
    shift <- ck_shl pf I128 1 exponent ;;
    match checked I128 (numer * shift) with
    | Some c => Val (FOk (mkdec c 0))
    | None => Val FOverflow
    end.
