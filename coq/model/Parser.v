(* Parser.v — model of fpdec-core/src/parser.rs and src/from_str.rs.
   A string is its UTF-8 byte sequence, [list Z] with entries 0..255.
   Rust item                          Gallina
   chunk_contains_8_digits(k)         chunk_contains_8_digits k       (wrapping u64 SWAR)
   chunk_to_u64(k)                    chunk_to_u64 k
   AsciiDecLit::read_u64              read_u64 s                      (little endian, needs >= 8 bytes)
   AsciiDecLit::skip_n (unsafe)       skip_n n s                      -> UB if fewer than n bytes
   skip_leading_zeroes                skip_leading_zeroes s
   accum_coeff(&mut coeff,&mut ovf)   accum_coeff fuel s coeff ovf    -> (rest, coeff, ovf, n_digits)
   accum_exp(&mut exp)                accum_exp s exp                 -> (rest, exp, n_digits)
   str_to_dec(lit)                    str_to_dec pf s                 -> Ok (coeff, exponent) | Err kind
   FromStr::from_str / TryFrom        from_str pf s
   usize lengths are plain Z (a slice length is < 2^63); isize arithmetic on the
   exponent is modelled with the I64 combinators. *)
From FP Require Import Machine SrcConsts Pow10.

Inductive perr := PEmpty | PInvalid | PFracLimit | POverflow.
Inductive pres (A : Type) := POk (a : A) | PErr (e : perr).
Arguments POk {A} a.
Arguments PErr {A} e.

Definition B_0 : Z := 48.   (* '0' *)
Definition B_PLUS : Z := 43.
Definition B_MINUS : Z := 45.
Definition B_DOT : Z := 46.
Definition B_e : Z := 101.
Definition B_E : Z := 69.

Definition chunk_contains_8_digits (chunk : Z) : bool :=
  let x := wrap U64 (chunk - SWAR_SUB) in
  let y := wrap U64 (chunk + SWAR_ADD) in
  Z.land (Z.lor x y) SWAR_HI =? 0.

Definition chunk_to_u64 (chunk : Z) : Z :=
  let c := Z.land chunk SWAR_M1 in
  let c := wrap U64 (wrap U64 (Z.land c SWAR_M2 * 10) + Z.land (Z.shiftr c 8) SWAR_M2) in
  let c := wrap U64 (wrap U64 (Z.land c SWAR_M3 * 100) + Z.land (Z.shiftr c 16) SWAR_M3) in
  wrap U64 (wrap U64 (Z.land c SWAR_M4 * 10000) + Z.land (Z.shiftr c 32) SWAR_M4).

(* little-endian u64 of the first 8 bytes *)
Definition read_u64 (s : list Z) : option Z :=
  match s with
  | b0 :: b1 :: b2 :: b3 :: b4 :: b5 :: b6 :: b7 :: _ =>
      Some (b0 + 2 ^ 8 * b1 + 2 ^ 16 * b2 + 2 ^ 24 * b3 + 2 ^ 32 * b4 + 2 ^ 40 * b5 + 2 ^ 48 * b6 + 2 ^ 56 * b7)
  | _ => None
  end.

(* get_unchecked(n..) : out of bounds is undefined behaviour *)
Fixpoint skip_n (n : nat) (s : list Z) : res (list Z) :=
  match n, s with
  | O, _ => Val s
  | S n', _ :: s' => skip_n n' s'
  | S _, [] => UB
  end.

Fixpoint skip_leading_zeroes (s : list Z) : list Z :=
  match s with
  | b :: s' => if b =? B_0 then skip_leading_zeroes s' else s
  | [] => []
  end.

Definition is_digit (b : Z) : bool := wrap U8 (b - B_0) <? 10.

(* overflowing_mul / overflowing_add on u128 *)
Definition ovf_mul_add (coeff mul add : Z) (ovf : bool) : Z * bool :=
  let t := coeff * mul in
  let o1 := negb (in_range U128 t) in
  let t := wrap U128 t in
  let t2 := t + add in
  let o2 := negb (in_range U128 t2) in
  (wrap U128 t2, ovf || o1 || o2).

(* second loop of accum_coeff: one digit at a time *)
Fixpoint accum_digits (s : list Z) (coeff : Z) (ovf : bool) (n : Z) : list Z * Z * bool * Z :=
  match s with
  | c :: s' =>
      let d := wrap U8 (c - B_0) in
      if d <? 10 then
        let '(coeff', ovf') := ovf_mul_add coeff 10 d ovf in
        accum_digits s' coeff' ovf' (n + 1)
      else (s, coeff, ovf, n)
  | [] => (s, coeff, ovf, n)
  end.

(* first loop of accum_coeff: chunks of 8 digits; fuel = number of bytes *)
Fixpoint accum_chunks (fuel : nat) (s : list Z) (coeff : Z) (ovf : bool) (n : Z) : res (list Z * Z * bool * Z) :=
  match fuel with
  | O => Val (s, coeff, ovf, n)
  | S f =>
      match read_u64 s with
      | Some k =>
          if chunk_contains_8_digits k then
            let '(coeff', ovf') := ovf_mul_add coeff CHUNK_MUL (chunk_to_u64 k) ovf in
            s' <- skip_n 8 s ;;
            accum_chunks f s' coeff' ovf' (n + 8)
          else Val (s, coeff, ovf, n)
      | None => Val (s, coeff, ovf, n)
      end
  end.

Definition accum_coeff (s : list Z) (coeff : Z) (ovf : bool) : res (list Z * Z * bool * Z) :=
  '(s1, c1, o1, n1) <- accum_chunks (length s) s coeff ovf 0 ;;
  Val (accum_digits s1 c1 o1 n1).

Fixpoint accum_exp (s : list Z) (exp : Z) (n : Z) : list Z * Z * Z :=
  match s with
  | c :: s' =>
      let d := wrap U8 (c - B_0) in
      if d <? 10 then
        let exp' := if exp <? EXP_CLAMP then wrap I64 (wrap I64 (exp * 10) + d) else exp in
        accum_exp s' exp' (n + 1)
      else (s, exp, n)
  | [] => (s, exp, n)
  end.

Definition len (s : list Z) : Z := Z.of_nat (length s).

Definition str_to_dec (pf : profile) (s : list Z) : res (pres (Z * Z)) :=
  match s with
  | [] => Val (PErr PEmpty)
  | c :: rest =>
      let '(is_negative, s1) :=
        if c =? B_MINUS then (true, rest) else if c =? B_PLUS then (false, rest) else (false, s) in
      match s1 with
      | [] => Val (PErr PInvalid)
      | _ =>
          let len_before := len s1 in
          let s2 := skip_leading_zeroes s1 in
          match s2 with
          | [] => Val (POk (0, 0))
          | _ =>
              n_leading_zeroes <- ck_sub pf U64 len_before (len s2) ;;
              '(s3, coeff, ovf, n_int) <- accum_coeff s2 0 false ;;
              '(s4, coeff, ovf, n_frac) <-
                 (match s3 with
                  | c :: s3' => if c =? B_DOT then accum_coeff s3' coeff ovf else Val (s3, coeff, ovf, 0)
                  | [] => Val (s3, coeff, ovf, 0)
                  end) ;;
              t <- ck_add pf U64 n_leading_zeroes n_int ;;
              n_digits <- ck_add pf U64 t n_frac ;;
              if n_digits =? 0 then Val (PErr PInvalid) else
              if ovf || (coeff >? tmax I128) then Val (PErr POverflow) else
              r <- (match s4 with
                    | [] => Val (POk (s4, 0))
                    | c :: s4' =>
                        if (c =? B_e) || (c =? B_E) then
                          match s4' with
                          | [] => Val (PErr PInvalid)
                          | c2 :: s5' =>
                              let '(exp_neg, s5) :=
                                if c2 =? B_MINUS then (true, s5') else if c2 =? B_PLUS then (false, s5') else (false, s4') in
                              let '(s6, exp, n_exp) := accum_exp s5 0 0 in
                              if n_exp =? 0 then Val (PErr PInvalid) else
                              exp <- (if exp_neg : bool then ck_neg pf I64 exp else Val exp) ;;
                              if n_exp >? EXP_MAX_DIGITS then Val (PErr PFracLimit) else Val (POk (s6, exp))
                          end
                        else Val (PErr PInvalid)
                    end) ;;
              match r with
              | PErr e => Val (PErr e)
              | POk (s7, exp) =>
                  match s7 with
                  | _ :: _ => Val (PErr PInvalid)
                  | [] =>
                      exp <- ck_sub pf I64 exp n_frac ;;
                      nexp <- ck_neg pf I64 exp ;;
                      if nexp >? MAX_N_FRAC_DIGITS then Val (PErr PFracLimit) else
                      let c := cast I128 coeff in
                      if is_negative : bool then nc <- ck_neg pf I128 c ;; Val (POk (nc, exp))
                      else Val (POk (c, exp))
                  end
              end
          end
      end
  end.

(* FromStr for Decimal *)
Definition from_str_fold (pf : profile) (coeff exponent : Z) : res (pres dec) :=
  nexp <- ck_neg pf I64 exponent ;;
  if nexp >? MAX_N_FRAC_DIGITS then Val (PErr PFracLimit) else
  if exponent >? FROMSTR_EXP_MAX then Val (PErr POverflow) else
  if exponent <? 0 then Val (POk (mkdec coeff (cast U8 nexp)))
  else
    o <- checked_mul_pow_ten coeff (cast U8 exponent) ;;
    match o with
    | None => Val (PErr POverflow)
    | Some c => Val (POk (mkdec c 0))
    end.

Definition from_str (pf : profile) (s : list Z) : res (pres dec) :=
  r <- str_to_dec pf s ;;
  match r with
  | PErr e => Val (PErr e)
  | POk (c, e) => from_str_fold pf c e
  end.

(* fpdec-macros: Dec! = strip the blank after a sign, str_to_dec, fold the
   exponent; every panic of the macro is a compile error = PErr *)
Definition strip_sign_blank (s : list Z) : list Z :=
  match s with
  | c :: 32 :: rest => if (c =? B_MINUS) || (c =? B_PLUS) then c :: rest else s
  | _ => s
  end.

Definition macro_fold (pf : profile) (coeff exponent : Z) : res (pres dec) :=
  nexp <- ck_neg pf I64 exponent ;;
  if nexp >? MAX_N_FRAC_DIGITS then Val (PErr PFracLimit) else
  if exponent >? MACRO_EXP_MAX then Val (PErr POverflow) else
  if exponent >? 0 then
    (* coeff.checked_mul(10i128.pow(exponent as u32)) ; exponent = 0 *)
    p <- ck pf I128 (10 ^ cast U32 exponent) ;;
    match checked I128 (coeff * p) with
    | None => Val (PErr POverflow)
    | Some v => Val (POk (mkdec v 0))
    end
  else Val (POk (mkdec coeff (cast U8 nexp))).

Definition dec_macro (pf : profile) (s : list Z) : res (pres dec) :=
  r <- str_to_dec pf (strip_sign_blank s) ;;
  match r with
  | PErr e => Val (PErr e)
  | POk (c, e) => macro_fold pf c e
  end.
