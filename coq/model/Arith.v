(* Arith.v — model of the Decimal/Decimal operator bodies.
   Rust item (file)                                   Gallina
   Decimal::eq_zero / eq_one (binops/cmp.rs)          eq_zero / eq_one
   normalize (lib.rs)                                 normalize
   impl Add/Sub for Decimal (binops/add_sub.rs)       dec_add / dec_sub
   impl CheckedAdd/CheckedSub (checked_add_sub.rs)    dec_checked_add / dec_checked_sub
   checked_mul_rounded (mul_rounded.rs)               checked_mul_rounded
   impl Mul / CheckedMul / MulRounded                 dec_mul / dec_checked_mul / dec_mul_rounded
   checked_div_rounded (div_rounded.rs)               checked_div_rounded
   impl Div / CheckedDiv / DivRounded                 dec_div / dec_checked_div / dec_div_rounded
   rem (rem.rs), impl Rem / CheckedRem                rem_core / dec_rem / dec_checked_rem
   Quantize (quantize.rs)                             dec_quantize
   fract (unops.rs)                                   dec_fract
   A subtraction of two u8 scale values that the code performs only inside the
   branch of a comparison which makes it non-negative is written as a plain
   [-] on Z. *)
From FP Require Import Machine SrcConsts Pow10 WideDiv Rounding.

Definition eq_zero (d : dec) : bool := coeff d =? 0.
Definition eq_one (d : dec) : res bool := t <- ten_pow (nfd d) ;; Val (coeff d =? t).

Definition or_panic {A} (o : option A) : res A :=
  match o with Some a => Val a | None => Panic end.

(* while *coeff % 10 == 0 && *n_frac_digits > 0 { *coeff /= 10; *n_frac_digits -= 1 } *)
Fixpoint normalize_loop (fuel : nat) (c n : Z) : res (Z * Z) :=
  match fuel with
  | O => Fuel
  | S f =>
      r <- t_rem I128 c 10 ;;
      if (r =? 0) && (n >? 0) then
        c' <- t_div I128 c 10 ;; normalize_loop f c' (n - 1)
      else Val (c, n)
  end.
Definition normalize (c n : Z) : res (Z * Z) :=
  if c =? 0 then Val (0, 0) else normalize_loop 256 c n.

(* ---- add / sub ---- *)
Definition addsub_i128 (sub : bool) (a b : Z) : option Z :=
  checked I128 (if sub then a - b else a + b).

Definition dec_addsub (sub : bool) (x y : dec) : res dec :=
  match Z.compare (nfd x) (nfd y) with
  | Eq => c <- or_panic (addsub_i128 sub (coeff x) (coeff y)) ;; Val (mkdec c (nfd x))
  | Gt => t <- mul_pow_ten (coeff y) (nfd x - nfd y) ;;
          c <- or_panic (addsub_i128 sub (coeff x) t) ;; Val (mkdec c (nfd x))
  | Lt => t <- mul_pow_ten (coeff x) (nfd y - nfd x) ;;
          c <- or_panic (addsub_i128 sub t (coeff y)) ;; Val (mkdec c (nfd y))
  end.
Definition dec_add := dec_addsub false.
Definition dec_sub := dec_addsub true.

Definition dec_checked_addsub (sub : bool) (x y : dec) : res (option dec) :=
  match Z.compare (nfd x) (nfd y) with
  | Eq => Val (option_map (fun c => mkdec c (nfd x)) (addsub_i128 sub (coeff x) (coeff y)))
  | Gt => ot <- checked_mul_pow_ten (coeff y) (nfd x - nfd y) ;;
          Val (obind ot (fun t => option_map (fun c => mkdec c (nfd x)) (addsub_i128 sub (coeff x) t)))
  | Lt => ot <- checked_mul_pow_ten (coeff x) (nfd y - nfd x) ;;
          Val (obind ot (fun t => option_map (fun c => mkdec c (nfd y)) (addsub_i128 sub t (coeff y))))
  end.
Definition dec_checked_add := dec_checked_addsub false.
Definition dec_checked_sub := dec_checked_addsub true.

(* ---- mul ---- *)
Definition checked_mul_rounded (pf : profile) (m : mode) (x y : dec) (n : Z) : res (option dec) :=
  mx <- ck_add pf U8 (nfd x) (nfd y) ;;
  if n >=? mx then
    Val (option_map (fun c => mkdec c mx) (checked I128 (coeff x * coeff y)))
  else
    let shift := mx - n in
    match checked I128 (coeff x * coeff y) with
    | Some c => t <- ten_pow shift ;; r <- i128_div_rounded pf c t m ;; Val (Some (mkdec r n))
    | None => o <- i128_mul_div_ten_pow_rounded pf (coeff x) (coeff y) shift m ;;
              Val (option_map (fun c => mkdec c n) o)
    end.

Definition dec_mul (pf : profile) (m : mode) (x y : dec) : res dec :=
  if eq_zero x || eq_zero y then Val DZERO else
  oy <- eq_one y ;;
  if oy : bool then Val x else
  ox <- eq_one x ;;
  if ox : bool then Val y else
  o <- checked_mul_rounded pf m x y MAX_N_FRAC_DIGITS ;; or_panic o.

Definition dec_checked_mul (pf : profile) (x y : dec) : res (option dec) :=
  if eq_zero x || eq_zero y then Val (Some DZERO) else
  oy <- eq_one y ;;
  if oy : bool then Val (Some x) else
  ox <- eq_one x ;;
  if ox : bool then Val (Some y) else
  n <- ck_add pf U8 (nfd x) (nfd y) ;;
  if n >? MAX_N_FRAC_DIGITS then Val None else
  Val (option_map (fun c => mkdec c n) (checked I128 (coeff x * coeff y))).

Definition dec_mul_rounded (pf : profile) (m : mode) (x y : dec) (n : Z) : res dec :=
  if n >? MAX_N_FRAC_DIGITS then Panic else
  if eq_zero x || eq_zero y then Val DZERO else
  o <- checked_mul_rounded pf m x y n ;; or_panic o.

(* ---- div ---- *)
Definition checked_div_rounded (pf : profile) (m : mode) (cx px cy py n : Z) : res (option Z) :=
  shift <- ck_add pf U8 n py ;;
  match Z.compare px shift with
  | Eq => r <- i128_div_rounded pf cx cy m ;; Val (Some r)
  | Lt =>
      let shift := shift - px in
      os <- checked_mul_pow_ten cx shift ;;
      match os with
      | Some sd => r <- i128_div_rounded pf sd cy m ;; Val (Some r)
      | None => i128_shifted_div_rounded pf cx shift cy m
      end
  | Gt =>
      let shift := px - shift in
      '(quot, rem) <- i128_div_mod_floor pf cx cy ;;
      divisor <- ten_pow shift ;;
      '(quot, divisor) <- (if negb (rem =? 0)
                           then a <- ck_mul pf I128 2 quot ;; q <- ck_add pf I128 a 1 ;;
                                d <- ck_mul pf I128 divisor 2 ;; Val (q, d)
                           else Val (quot, divisor)) ;;
      r <- i128_div_rounded pf quot divisor m ;; Val (Some r)
  end.

(* the part of Div / CheckedDiv after the three short-cuts *)
Definition div_tail (pf : profile) (m : mode) (cx px cy py : Z) : res (option dec) :=
  o <- checked_div_rounded pf m cx px cy py MAX_N_FRAC_DIGITS ;;
  match o with
  | None => Val None
  | Some c => '(c', n') <- normalize c MAX_N_FRAC_DIGITS ;; Val (Some (mkdec c' n'))
  end.

Definition dec_div (pf : profile) (m : mode) (x y : dec) : res dec :=
  if eq_zero y then Panic else
  if eq_zero x then Val DZERO else
  oy <- eq_one y ;;
  if oy : bool then Val x else
  o <- div_tail pf m (coeff x) (nfd x) (coeff y) (nfd y) ;; or_panic o.

Definition dec_checked_div (pf : profile) (m : mode) (x y : dec) : res (option dec) :=
  if eq_zero y then Val None else
  if eq_zero x then Val (Some DZERO) else
  oy <- eq_one y ;;
  if oy : bool then Val (Some x) else
  div_tail pf m (coeff x) (nfd x) (coeff y) (nfd y).

Definition dec_div_rounded (pf : profile) (m : mode) (x y : dec) (n : Z) : res dec :=
  if n >? MAX_N_FRAC_DIGITS then Panic else
  if eq_zero y then Panic else
  if eq_zero x then Val DZERO else
  o <- checked_div_rounded pf m (coeff x) (nfd x) (coeff y) (nfd y) n ;;
  c <- or_panic o ;; Val (mkdec c n).

(* ---- rem ---- *)
(* the digit-by-digit fall-back loop of fn rem: None = Err(InternalOverflow) *)
Fixpoint rem_loop (fuel : nat) (rem divisor shift : Z) : res (option Z) :=
  match fuel with
  | O => Fuel
  | S f =>
      if negb (rem =? 0) && (shift >? 0) then
        match checked I128 (rem * 10) with
        | Some sr => r <- t_rem I128 sr divisor ;; rem_loop f r divisor (shift - 1)
        | None => Val None
        end
      else Val (Some rem)
  end.

(* fn rem: Ok((coeff, n_frac_digits)) = Some, Err(InternalOverflow) = None *)
Definition rem_core (cx px cy py : Z) : res (option (Z * Z)) :=
  match Z.compare px py with
  | Eq => r <- t_rem I128 cx cy ;; Val (Some (r, px))
  | Gt =>
      os <- checked_mul_pow_ten cy (px - py) ;;
      match os with
      | Some sd => r <- t_rem I128 cx sd ;; Val (Some (r, px))
      | None => Val (Some (cx, px))
      end
  | Lt =>
      let shift := py - px in
      os <- checked_mul_pow_ten cx shift ;;
      match os with
      | Some sx => r <- t_rem I128 sx cy ;; Val (Some (r, py))
      | None =>
          r0 <- t_rem I128 cx cy ;;
          o <- rem_loop 256 r0 cy shift ;;
          Val (option_map (fun r => (r, py)) o)
      end
  end.

Definition dec_fract (d : dec) : res dec :=
  if nfd d =? 0 then Val DZERO else
  t <- ten_pow (nfd d) ;; r <- t_rem I128 (coeff d) t ;; Val (mkdec r (nfd d)).

Definition dec_checked_rem (x y : dec) : res (option dec) :=
  if eq_zero y then Val None else
  if eq_zero x then Val (Some DZERO) else
  oy <- eq_one y ;;
  if oy : bool then f <- dec_fract x ;; Val (Some f) else
  o <- rem_core (coeff x) (nfd x) (coeff y) (nfd y) ;;
  Val (option_map (fun '(c, n) => mkdec c n) o).

Definition dec_rem (x y : dec) : res dec :=
  if eq_zero y then Panic else
  if eq_zero x then Val DZERO else
  oy <- eq_one y ;;
  if oy : bool then dec_fract x else
  o <- rem_core (coeff x) (nfd x) (coeff y) (nfd y) ;;
  match o with Some (c, n) => Val (mkdec c n) | None => Panic end.

(* ---- quantize: self.div_rounded(quant, 0) * quant ---- *)
Definition dec_quantize (pf : profile) (m : mode) (x q : dec) : res dec :=
  d <- dec_div_rounded pf m x q 0 ;; dec_mul pf m d q.
