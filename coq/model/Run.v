(* Run.v — dispatch: one entry per operation of the line protocol.
   [run_*]  evaluates the model and renders its outcome;
   [acc_*]  is the specification's verdict on an arbitrary outcome (the oracle
            applied to the implementation, and the statement proved of the model);
   [cls_*]  classifies an input for coverage accounting (0 = trivial). *)
From FP Require Import Machine SrcConsts Pow10 WideDiv Rounding Arith Cmp Unops IntForms Round Parser.
From FP Require Import RoundSpec Out ArithSpec.

Inductive binop :=
| Badd | Bsub | Bmul | Bdiv | Brem | Bcadd | Bcsub | Bcmul | Bcdiv | Bcrem
| Bdivr | Bmulr | Bquant
| Beq | Bne | Blt | Ble | Bgt | Bge | Bcmp | Bpcmp | Bmin | Bmax.

(* error kinds *)
Definition E_NOTINT : Z := 21.
Definition E_RANGE : Z := 22.
Definition E_OVERFLOW : Z := 12.

(* ---------------- Decimal o Decimal ---------------- *)
Definition run_dd (pf : profile) (m : mode) (op : binop) (x y : dec) (n : Z) : out :=
  match op with
  | Badd => out_dec (dec_add x y)
  | Bsub => out_dec (dec_sub x y)
  | Bmul => out_dec (dec_mul pf m x y)
  | Bdiv => out_dec (dec_div pf m x y)
  | Brem => out_dec (dec_rem x y)
  | Bcadd => out_odec (dec_checked_add x y)
  | Bcsub => out_odec (dec_checked_sub x y)
  | Bcmul => out_odec (dec_checked_mul pf x y)
  | Bcdiv => out_odec (dec_checked_div pf m x y)
  | Bcrem => out_odec (dec_checked_rem x y)
  | Bdivr => out_dec (dec_div_rounded pf m x y n)
  | Bmulr => out_dec (dec_mul_rounded pf m x y n)
  | Bquant => out_dec (dec_quantize pf m x y)
  | Beq => out_bool (dec_eq x y)
  | Bne => out_bool (dec_ne x y)
  | Blt => out_bool (dec_lt x y)
  | Ble => out_bool (dec_le x y)
  | Bgt => out_bool (dec_gt x y)
  | Bge => out_bool (dec_ge x y)
  | Bcmp => out_cmp (dec_cmp x y)
  | Bpcmp => out_ocmp (dec_partial_cmp x y)
  | Bmin => out_dec (dec_min x y)
  | Bmax => out_dec (dec_max x y)
  end.

Definition cmp_is (c : comparison) (l : list comparison) : bool :=
  existsb (cmp_eqb c) l.

(* min/max: one of the operands, and not greater (smaller) in value than either *)
Definition acc_minmax (ismax : bool) (x y : dec) (o : out) : bool :=
  match o with
  | OV r => (dec_eqb r x || dec_eqb r y) &&
            (if ismax then cmp_is (cmp_spec r x) [Gt; Eq] && cmp_is (cmp_spec r y) [Gt; Eq]
             else cmp_is (cmp_spec r x) [Lt; Eq] && cmp_is (cmp_spec r y) [Lt; Eq])
  | _ => false
  end.

Definition acc_dd (m : mode) (op : binop) (x y : dec) (n : Z) (o : out) : bool :=
  match op with
  | Badd => acc_op (addsub_spec false x y) o
  | Bsub => acc_op (addsub_spec true x y) o
  | Bmul => acc_op (mul_spec m x y) o
  | Bdiv => acc_op (div_spec m x y) o
  | Brem => acc_op (rem_spec x y) o
  | Bcadd => acc_chk (addsub_spec false x y) o
  | Bcsub => acc_chk (addsub_spec true x y) o
  | Bcmul => acc_chk (checked_mul_spec x y) o
  | Bcdiv => acc_chk (div_spec m x y) o
  | Bcrem => acc_chk (rem_spec x y) o
  | Bdivr => acc_op (div_rounded_spec m x y n) o
  | Bmulr => acc_op (mul_rounded_spec m x y n) o
  | Bquant => acc_op (quantize_spec m x y) o
  | Beq => out_eqb o (OB (eq_spec x y))
  | Bne => out_eqb o (OB (negb (eq_spec x y)))
  | Blt => out_eqb o (OB (cmp_is (cmp_spec x y) [Lt]))
  | Ble => out_eqb o (OB (cmp_is (cmp_spec x y) [Lt; Eq]))
  | Bgt => out_eqb o (OB (cmp_is (cmp_spec x y) [Gt]))
  | Bge => out_eqb o (OB (cmp_is (cmp_spec x y) [Gt; Eq]))
  | Bcmp | Bpcmp => out_eqb o (OO (Some (cmp_spec x y)))
  | Bmin => acc_minmax false x y o
  | Bmax => acc_minmax true x y o
  end.

(* ---------------- Decimal o int, int o Decimal, int o int ---------------- *)
Definition run_di (pf : profile) (m : mode) (op : binop) (t : ity) (d : dec) (i n : Z) : out :=
  match op with
  | Badd => out_dec (di_addsub false d i)
  | Bsub => out_dec (di_addsub true d i)
  | Bmul => out_dec (di_mul d i)
  | Bdiv => out_dec (di_div pf m d i)
  | Brem => out_dec (di_rem d i)
  | Bcadd => out_odec (di_checked_addsub false d i)
  | Bcsub => out_odec (di_checked_addsub true d i)
  | Bcmul => out_odec (di_checked_mul d i)
  | Bcdiv => out_odec (di_checked_div pf m d i)
  | Bcrem => out_odec (di_checked_rem d i)
  | Bdivr => out_dec (di_div_rounded pf m d i n)
  | Bquant => out_dec (di_quantize pf m d i)
  | Beq => out_bool (di_eq t d i)
  | Bne => out_bool (b <- di_eq t d i ;; Val (negb b))
  | Blt => out_bool (o <- di_partial_cmp t d i ;; Val (is_lt o))
  | Ble => out_bool (o <- di_partial_cmp t d i ;; Val (is_le o))
  | Bgt => out_bool (o <- di_partial_cmp t d i ;; Val (is_gt o))
  | Bge => out_bool (o <- di_partial_cmp t d i ;; Val (is_ge o))
  | Bpcmp => out_ocmp (di_partial_cmp t d i)
  | _ => OX
  end.

Definition run_id (pf : profile) (m : mode) (op : binop) (t : ity) (i : Z) (d : dec) (n : Z) : out :=
  match op with
  | Badd => out_dec (id_addsub false i d)
  | Bsub => out_dec (id_addsub true i d)
  | Bmul => out_dec (id_mul i d)
  | Bdiv => out_dec (id_div pf m i d)
  | Brem => out_dec (id_rem i d)
  | Bcadd => out_odec (id_checked_addsub false i d)
  | Bcsub => out_odec (id_checked_addsub true i d)
  | Bcmul => out_odec (id_checked_mul i d)
  | Bcdiv => out_odec (id_checked_div pf m i d)
  | Bcrem => out_odec (id_checked_rem i d)
  | Bdivr => out_dec (id_div_rounded pf m i d n)
  | Bquant => out_dec (id_quantize pf m i d)
  | Beq => out_bool (id_eq t i d)
  | Bne => out_bool (b <- id_eq t i d ;; Val (negb b))
  | Blt => out_bool (o <- id_partial_cmp t i d ;; Val (is_lt o))
  | Ble => out_bool (o <- id_partial_cmp t i d ;; Val (is_le o))
  | Bgt => out_bool (o <- id_partial_cmp t i d ;; Val (is_gt o))
  | Bge => out_bool (o <- id_partial_cmp t i d ;; Val (is_ge o))
  | Bpcmp => out_ocmp (id_partial_cmp t i d)
  | _ => OX
  end.

Definition run_ii (pf : profile) (m : mode) (op : binop) (i j n : Z) : out :=
  match op with
  | Bdivr => out_dec (ii_div_rounded pf m i j n)
  | Bquant => out_dec (ii_quantize pf m i j)
  | _ => OX
  end.

(* the specification of an integer operand is that of Decimal::from(i), except
   that Decimal-by-integer multiplication has no short-cuts (C02, C17) *)
Definition acc_int (m : mode) (op : binop) (x y : dec) (n : Z) (o : out) : bool :=
  match op with
  | Bmin | Bmax | Bcmp | Bmulr => false
  | _ => acc_dd m op x y n o
  end.
Definition acc_di (m : mode) (op : binop) (d : dec) (i n : Z) (o : out) : bool :=
  match op with
  | Bmul => acc_op (mul_int_spec d i) o
  | Bcmul => acc_chk (mul_int_spec d i) o
  | _ => acc_int m op d (mkdec i 0) n o
  end.
Definition acc_id (m : mode) (op : binop) (i : Z) (d : dec) (n : Z) (o : out) : bool :=
  match op with
  | Bmul => acc_op (mul_int_spec d i) o
  | Bcmul => acc_chk (mul_int_spec d i) o
  | _ => acc_int m op (mkdec i 0) d n o
  end.
Definition acc_ii (m : mode) (op : binop) (i j n : Z) (o : out) : bool :=
  match op with
  | Bdivr | Bquant => acc_dd m op (mkdec i 0) (mkdec j 0) n o
  | _ => false
  end.

(* known finding K1: the integer-operand bodies of div_rounded do not reject n > 18 *)
Definition known_K1 (op : binop) (n : Z) : bool :=
  match op with Bdivr => 18 <? n | _ => false end.

(* ---------------- unary ---------------- *)
Inductive unop :=
| Uround | Ucround | Ufloor | Uceil | Utrunc | Ufract | Uabs | Uneg | Umag
| Uiszero | Uisone | Uisneg | Uispos | Utoint (t : ity).

Definition out_toint (r : res toint) : out :=
  of_res (fun t => match t with TOk v => OI v | TNotInt => OE E_NOTINT | TRange => OE E_RANGE end) r.

Definition run_un (pf : profile) (m : mode) (op : unop) (d : dec) (n : Z) : out :=
  match op with
  | Uround => out_dec (dec_round pf m d n)
  | Ucround => out_odec (dec_checked_round pf m d n)
  | Ufloor => out_dec (dec_floor pf d)
  | Uceil => out_dec (dec_ceil pf d)
  | Utrunc => out_dec (dec_trunc d)
  | Ufract => out_dec (dec_fract d)
  | Uabs => out_dec (dec_abs pf d)
  | Uneg => out_dec (dec_neg pf d)
  | Umag => out_int (dec_magnitude pf d)
  | Uiszero => OB (eq_zero d)
  | Uisone => out_bool (eq_one d)
  | Uisneg => OB (is_negative d)
  | Uispos => OB (is_positive d)
  | Utoint t => out_toint (to_int t d)
  end.

Definition out_toint_s (t : toint_s) : out :=
  match t with TSOk v => OI v | TSNotInt => OE E_NOTINT | TSRange => OE E_RANGE end.

Definition acc_un (m : mode) (op : unop) (d : dec) (n : Z) (o : out) : bool :=
  match op with
  | Uround => acc_op (round_sres m d n) o
  | Ucround => acc_chk (round_sres m d n) o
  | Ufloor => out_eqb o (OV (mkdec (floor_spec d) 0))
  | Uceil => out_eqb o (OV (mkdec (ceil_spec d) 0))
  | Utrunc => out_eqb o (OV (mkdec (trunc_spec d) 0))
  | Ufract => out_eqb o (OV (if nfd d =? 0 then DZERO else mkdec (fract_spec d) (nfd d)))
  | Uabs => out_eqb o (OV (mkdec (Z.abs (coeff d)) (nfd d)))
  | Uneg => out_eqb o (OV (mkdec (- coeff d) (nfd d)))
  | Umag => out_eqb o (OI (magnitude_spec d))
  | Uiszero => out_eqb o (OB (is_zero d))
  | Uisone => out_eqb o (OB (is_one d))
  | Uisneg => out_eqb o (OB (coeff d <? 0))
  | Uispos => out_eqb o (OB (0 <? coeff d))
  | Utoint t => out_eqb o (out_toint_s (to_int_spec t d))
  end.

(* ---------------- conversions from integers ---------------- *)
Definition run_fromint (i : Z) : out := OV (from_int i).
Definition acc_fromint (i : Z) (o : out) : bool := out_eqb o (OV (mkdec i 0)).
Definition run_fromu128 (u : Z) : out :=
  match try_from_u128 u with Some d => OV d | None => OE E_OVERFLOW end.
Definition acc_fromu128 (u : Z) (o : out) : bool :=
  out_eqb o (if u <=? MAXC then OV (mkdec u 0) else OE E_OVERFLOW).

(* ---------------- kernels (C16, C05) ---------------- *)
Inductive kop := Ki256 | Ksdmf | Kdivr | Ksdr | Kmdr | Kdmf | Kmag | Kmulw | Kidiv
                | Kidiv64 | Kidivs | Kmsb | Klt5 | Kchd | Kchv.

(* the eight bytes of a little-endian word, first character first *)
Definition bytes_le (w : Z) : list Z :=
  map (fun i => (w / 2 ^ (8 * i)) mod 256) [0; 1; 2; 3; 4; 5; 6; 7].
Definition all_digits8 (w : Z) : bool := forallb (fun b => (48 <=? b) && (b <=? 57)) (bytes_le w).
Definition digits8_value (w : Z) : Z := fold_left (fun a b => a * 10 + (b - 48)) (bytes_le w) 0.

Definition out_oqr (r : res (option (Z * Z))) : out :=
  of_res (of_opt (fun '(q, r) => OQ q r)) r.
Definition out_oint (r : res (option Z)) : out := of_res (of_opt OI) r.

(* a b c : up to three integer arguments *)
Definition run_k (pf : profile) (m : mode) (op : kop) (a b c : Z) : out :=
  match op with
  | Ki256 => out_oqr (i256_div_mod_floor pf a b c)
  | Ksdmf => out_oqr (i128_shifted_div_mod_floor pf a b c)
  | Kdivr => out_int (i128_div_rounded pf a b m)
  | Ksdr => out_oint (i128_shifted_div_rounded pf a b c m)
  | Kmdr => out_oint (i128_mul_div_ten_pow_rounded pf a b c m)
  | Kdmf => of_res (fun '(q, r) => OQ q r) (i128_div_mod_floor pf a b)
  | Kmag => out_int (i128_magnitude pf a)
  | Kmulw => of_res (fun '(h, l) => OQ h l) (u128_mul_u128 pf a b)
  | Kidiv => of_res (fun '(h, l, r) => OQ (h * 2 ^ 128 + l) r) (u256_idiv_u128 pf a b c)
  | Kidiv64 => of_res (fun '(h, l, r) => OQ (h * 2 ^ 128 + l) r) (u256_idiv_u64 pf a b c)
  | Kidivs => of_res (fun '(h, l, r) => OQ (h * 2 ^ 128 + l) r) (u256_idiv_u128_special pf a b c)
  | Kmsb => out_int (u128_msb pf a)
  | Klt5 => out_int (log_lt5 pf a)
  | Kchd => OB (Parser.chunk_contains_8_digits a)
  | Kchv => OI (Parser.chunk_to_u64 a)
  end.

(* floor quotient/remainder of num by den > 0, or the report that the quotient
   does not fit: required when |num| / den > 2^127, permitted when it is = 2^127 *)
Definition acc_floor_qr (num den : Z) (o : out) : bool :=
  let t := Z.abs num / den in
  match o with
  | OQ q r => (t <=? MAXC + 1) && (q =? num / den) && (r =? num mod den)
              && (MINC <=? num / den) && (num / den <=? MAXC)
  | ON => MAXC <? t
  | _ => false
  end.
Definition acc_rounded_int (c : Z) (o : out) : bool :=
  match o with
  | OI v => (v =? c) && (MINC <=? c) && (c <=? MAXC)
  | ON => (MAXC <? Z.abs c)
  | _ => false
  end.

Definition acc_k (m : mode) (op : kop) (a b c : Z) (o : out) : bool :=
  match op with
  | Ki256 => acc_floor_qr (a * b) c o
  | Ksdmf => acc_floor_qr (a * 10 ^ b) c o
  | Kdivr => out_eqb o (OI (rndq m a b))
  | Ksdr => acc_rounded_int (rndq m (a * 10 ^ b) c) o
  | Kmdr => acc_rounded_int (rnd m (a * b) (10 ^ c)) o
  | Kdmf => out_eqb o (OQ (a / b) (a mod b))
  | Kmag => out_eqb o (OI (ilog10 (Z.abs a)))
  | Kmulw => out_eqb o (OQ (a * b / 2 ^ 128) ((a * b) mod 2 ^ 128))
  | Kidiv | Kidiv64 | Kidivs => out_eqb o (OQ ((a * 2 ^ 128 + b) / c) ((a * 2 ^ 128 + b) mod c))
  | Kmsb => out_eqb o (OI (Z.log2 a))
  | Klt5 => out_eqb o (OI (ilog10 a))
  | Kchd => out_eqb o (OB (all_digits8 a))
  | Kchv => if all_digits8 a then out_eqb o (OI (digits8_value a)) else true
  end.
