(* Machine.v — machine-integer layer of the model.

   Every primitive operation the Rust code applies to a fixed-width integer is
   one combinator here.  A combinator's result is an outcome [res]:
   [Val v], [Panic] (any Rust panic, message not modelled) or [UB] (an
   out-of-bounds unchecked access in `unsafe` code).  The build profile [pf]
   decides whether an arithmetic overflow panics (dev: overflow-checks on) or
   wraps (release).  No proofs in this file except trivial computation lemmas
   needed to state later definitions. *)

From Coq Require Export ZArith Bool List Lia.
Export ListNotations.
Open Scope Z_scope.

Inductive res (A : Type) : Type :=
| Val (a : A)
| Panic
| UB
| Fuel.   (* a fuel-bounded loop of the model ran out of fuel: excluded by every theorem *)
Arguments Val {A} a.
Arguments Panic {A}.
Arguments UB {A}.
Arguments Fuel {A}.

Definition bind {A B : Type} (r : res A) (f : A -> res B) : res B :=
  match r with
  | Val a => f a
  | Panic => Panic
  | UB => UB
  | Fuel => Fuel
  end.

Notation "x <- e ;; f" := (bind e (fun x => f))
  (at level 61, e at next level, right associativity).
Notation "' p <- e ;; f" := (bind e (fun p => f))
  (at level 61, p pattern, e at next level, right associativity).

Record profile := { ovf_checks : bool; dbg_asserts : bool }.
Definition dev : profile := {| ovf_checks := true; dbg_asserts := true |}.
Definition release : profile := {| ovf_checks := false; dbg_asserts := false |}.

(* integer types used by the crate *)
Inductive ity := U8 | I8 | U16 | I16 | U32 | I32 | U64 | I64 | U128 | I128 | Usize | Isize.

Definition bits (t : ity) : Z :=
  match t with
  | U8 | I8 => 8 | U16 | I16 => 16 | U32 | I32 => 32
  | U64 | I64 | Usize | Isize => 64 | U128 | I128 => 128
  end.

Definition signed (t : ity) : bool :=
  match t with
  | I8 | I16 | I32 | I64 | I128 | Isize => true
  | _ => false
  end.

Definition tmin (t : ity) : Z := if signed t then - 2 ^ (bits t - 1) else 0.
Definition tmax (t : ity) : Z := if signed t then 2 ^ (bits t - 1) - 1 else 2 ^ bits t - 1.

Definition in_range (t : ity) (z : Z) : bool := (tmin t <=? z) && (z <=? tmax t).

(* two's complement wrap-around *)
Definition wrap (t : ity) (z : Z) : Z :=
  if signed t
  then (z + 2 ^ (bits t - 1)) mod 2 ^ bits t - 2 ^ (bits t - 1)
  else z mod 2 ^ bits t.

(* result of a plain arithmetic operator whose mathematical value is [z] *)
Definition ck (pf : profile) (t : ity) (z : Z) : res Z :=
  if in_range t z then Val z
  else if ovf_checks pf then Panic else Val (wrap t z).

Definition ck_add pf t a b := ck pf t (a + b).
Definition ck_sub pf t a b := ck pf t (a - b).
Definition ck_mul pf t a b := ck pf t (a * b).
Definition ck_neg pf t a := ck pf t (- a).
Definition ck_abs pf t a := ck pf t (Z.abs a).

(* checked_* : Option *)
Definition checked (t : ity) (z : Z) : option Z := if in_range t z then Some z else None.
(* wrapping_* *)
Definition wrapping (t : ity) (z : Z) : Z := wrap t z.

(* `/` and `%` : truncating; divisor zero and MIN / -1 panic in every profile *)
Definition t_div (t : ity) (a b : Z) : res Z :=
  if b =? 0 then Panic
  else if signed t && (a =? tmin t) && (b =? -1) then Panic
  else Val (Z.quot a b).
Definition t_rem (t : ity) (a b : Z) : res Z :=
  if b =? 0 then Panic
  else if signed t && (a =? tmin t) && (b =? -1) then Panic
  else Val (Z.rem a b).

(* `<<` and `>>` : the shift amount is checked (overflow-checks), bits shifted
   out are lost silently *)
Definition ck_shl (pf : profile) (t : ity) (a n : Z) : res Z :=
  if (0 <=? n) && (n <? bits t) then Val (wrap t (a * 2 ^ n))
  else if ovf_checks pf then Panic else Val (wrap t (a * 2 ^ (n mod bits t))).
Definition ck_shr (pf : profile) (t : ity) (a n : Z) : res Z :=
  if (0 <=? n) && (n <? bits t) then Val (a / 2 ^ n)
  else if ovf_checks pf then Panic else Val (a / 2 ^ (n mod bits t)).

(* `as` casts between integer types wrap *)
Definition cast (t : ity) (z : Z) : Z := wrap t z.

(* debug_assert!(b) *)
Definition dbg_assert (pf : profile) (b : bool) : res unit :=
  if dbg_asserts pf && negb b then Panic else Val tt.
(* assert!(b) *)
Definition assert (b : bool) : res unit := if b then Val tt else Panic.

(* slice indexing with bounds check *)
Definition index {A} (l : list A) (i : Z) : res A :=
  if i <? 0 then Panic else
  match nth_error l (Z.to_nat i) with
  | Some a => Val a
  | None => Panic
  end.

(* leading / trailing zero counts of a [w]-bit unsigned value *)
Definition lz (w : Z) (v : Z) : Z := if v <=? 0 then w else w - 1 - Z.log2 v.
Fixpoint tz_pos (p : positive) : Z :=
  match p with
  | xO p' => 1 + tz_pos p'
  | _ => 0
  end.
Definition tz (w : Z) (v : Z) : Z :=
  match v with
  | Zpos p => tz_pos p
  | _ => w
  end.

(* option helpers *)
Definition obind {A B} (o : option A) (f : A -> option B) : option B :=
  match o with Some a => f a | None => None end.

(* rounding modes, in the declaration order of the Rust enum *)
Inductive mode := R05Up | RCeiling | RDown | RFloor | RHalfDown | RHalfEven | RHalfUp | RUp.

Definition all_modes : list mode :=
  [R05Up; RCeiling; RDown; RFloor; RHalfDown; RHalfEven; RHalfUp; RUp].

(* Decimal *)
Record dec := mkdec { coeff : Z; nfd : Z }.

Definition MAXC : Z := 2 ^ 127 - 1.
Definition wf (d : dec) : bool :=
  (- MAXC <=? coeff d) && (coeff d <=? MAXC) && (0 <=? nfd d) && (nfd d <=? 18).

Definition DZERO : dec := mkdec 0 0.
