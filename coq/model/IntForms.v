(* IntForms.v — model of the separately written Decimal/integer operator bodies
   (macros impl_*_decimal_and_int! in src/binops/*.rs, impl_div_rounded_int_and_int!,
   the blanket Quantize impl) and of the integer conversions (from_int.rs,
   into_int.rs).  An integer operand is its value [i] = i128::from(i); the
   type tag is needed only where the code tests signedness or the type range. *)
From FP Require Import Machine SrcConsts Pow10 WideDiv Rounding Arith.

(* ---- + - ---- *)
Definition di_addsub (sub : bool) (d : dec) (i : Z) : res dec :=
  if nfd d =? 0 then c <- or_panic (addsub_i128 sub (coeff d) i) ;; Val (mkdec c 0)
  else t <- mul_pow_ten i (nfd d) ;; c <- or_panic (addsub_i128 sub (coeff d) t) ;; Val (mkdec c (nfd d)).
Definition id_addsub (sub : bool) (i : Z) (d : dec) : res dec :=
  if nfd d =? 0 then c <- or_panic (addsub_i128 sub i (coeff d)) ;; Val (mkdec c 0)
  else t <- mul_pow_ten i (nfd d) ;; c <- or_panic (addsub_i128 sub t (coeff d)) ;; Val (mkdec c (nfd d)).

Definition di_checked_addsub (sub : bool) (d : dec) (i : Z) : res (option dec) :=
  if nfd d =? 0 then Val (option_map (fun c => mkdec c (nfd d)) (addsub_i128 sub (coeff d) i))
  else ot <- checked_mul_pow_ten i (nfd d) ;;
       Val (obind ot (fun t => option_map (fun c => mkdec c (nfd d)) (addsub_i128 sub (coeff d) t))).
Definition id_checked_addsub (sub : bool) (i : Z) (d : dec) : res (option dec) :=
  if nfd d =? 0 then Val (option_map (fun c => mkdec c (nfd d)) (addsub_i128 sub i (coeff d)))
  else ot <- checked_mul_pow_ten i (nfd d) ;;
       Val (obind ot (fun t => option_map (fun c => mkdec c (nfd d)) (addsub_i128 sub t (coeff d)))).

(* ---- * ---- *)
Definition di_mul (d : dec) (i : Z) : res dec :=
  c <- or_panic (checked I128 (coeff d * i)) ;; Val (mkdec c (nfd d)).
Definition id_mul (i : Z) (d : dec) : res dec :=
  c <- or_panic (checked I128 (i * coeff d)) ;; Val (mkdec c (nfd d)).
Definition di_checked_mul (d : dec) (i : Z) : res (option dec) :=
  Val (option_map (fun c => mkdec c (nfd d)) (checked I128 (coeff d * i))).
Definition id_checked_mul (i : Z) (d : dec) : res (option dec) :=
  Val (option_map (fun c => mkdec c (nfd d)) (checked I128 (i * coeff d))).

(* ---- / ---- *)
Definition di_checked_div (pf : profile) (m : mode) (d : dec) (i : Z) : res (option dec) :=
  if i =? 0 then Val None else
  if eq_zero d then Val (Some DZERO) else
  if i =? 1 then Val (Some d) else
  div_tail pf m (coeff d) (nfd d) i 0.
Definition di_div (pf : profile) (m : mode) (d : dec) (i : Z) : res dec :=
  if i =? 0 then Panic else
  if eq_zero d then Val DZERO else
  if i =? 1 then Val d else
  o <- div_tail pf m (coeff d) (nfd d) i 0 ;; or_panic o.
Definition id_checked_div (pf : profile) (m : mode) (i : Z) (d : dec) : res (option dec) :=
  if eq_zero d then Val None else
  if i =? 0 then Val (Some DZERO) else
  o1 <- eq_one d ;;
  if o1 : bool then Val (Some (mkdec i 0)) else
  div_tail pf m i 0 (coeff d) (nfd d).
Definition id_div (pf : profile) (m : mode) (i : Z) (d : dec) : res dec :=
  if eq_zero d then Panic else
  if i =? 0 then Val DZERO else
  o1 <- eq_one d ;;
  if o1 : bool then Val (mkdec i 0) else
  o <- div_tail pf m i 0 (coeff d) (nfd d) ;; or_panic o.

(* ---- div_rounded : no `n <= 18` guard in these three bodies (known finding K1) ---- *)
Definition di_div_rounded (pf : profile) (m : mode) (d : dec) (i n : Z) : res dec :=
  if i =? 0 then Panic else
  if eq_zero d then Val DZERO else
  o <- checked_div_rounded pf m (coeff d) (nfd d) i 0 n ;;
  c <- or_panic o ;; Val (mkdec c n).
Definition id_div_rounded (pf : profile) (m : mode) (i : Z) (d : dec) (n : Z) : res dec :=
  if eq_zero d then Panic else
  if i =? 0 then Val DZERO else
  o <- checked_div_rounded pf m i 0 (coeff d) (nfd d) n ;;
  c <- or_panic o ;; Val (mkdec c n).
Definition ii_div_rounded (pf : profile) (m : mode) (i j n : Z) : res dec :=
  if j =? 0 then Panic else
  if i =? 0 then Val DZERO else
  o <- checked_div_rounded pf m i 0 j 0 n ;;
  c <- or_panic o ;; Val (mkdec c n).

(* ---- % ---- *)
Definition di_checked_rem (d : dec) (i : Z) : res (option dec) :=
  if i =? 0 then Val None else
  if eq_zero d then Val (Some DZERO) else
  if i =? 1 then f <- dec_fract d ;; Val (Some f) else
  o <- rem_core (coeff d) (nfd d) i 0 ;;
  Val (option_map (fun '(c, n) => mkdec c n) o).
Definition di_rem (d : dec) (i : Z) : res dec :=
  o <- di_checked_rem d i ;;
  if i =? 0 then Panic else or_panic o.
Definition id_checked_rem (i : Z) (d : dec) : res (option dec) :=
  if eq_zero d then Val None else
  o1 <- (if i =? 0 then Val true else eq_one d) ;;
  if o1 : bool then Val (Some DZERO) else
  o <- rem_core i 0 (coeff d) (nfd d) ;;
  Val (option_map (fun '(c, n) => mkdec c n) o).
Definition id_rem (i : Z) (d : dec) : res dec :=
  if eq_zero d then Panic else
  o <- id_checked_rem i d ;; or_panic o.

(* ---- quantize = self.div_rounded(quant, 0) * quant ---- *)
Definition di_quantize (pf : profile) (m : mode) (d : dec) (i : Z) : res dec :=
  q <- di_div_rounded pf m d i 0 ;; di_mul q i.
Definition id_quantize (pf : profile) (m : mode) (i : Z) (d : dec) : res dec :=
  q <- id_div_rounded pf m i d 0 ;; dec_mul pf m q d.
Definition ii_quantize (pf : profile) (m : mode) (i j : Z) : res dec :=
  q <- ii_div_rounded pf m i j 0 ;; di_mul q j.

(* ---- conversions ---- *)
Definition from_int (i : Z) : dec := mkdec i 0.
Definition try_from_u128 (u : Z) : option dec :=
  if in_range I128 u then Some (from_int u) else None.

Inductive toint := TOk (v : Z) | TNotInt | TRange.
Definition to_i128 (d : dec) : res toint :=
  if (nfd d =? 0) || (coeff d =? 0) then Val (TOk (coeff d)) else
  t <- ten_pow (nfd d) ;;
  r <- t_rem I128 (coeff d) t ;;
  if r =? 0 then q <- t_div I128 (coeff d) t ;; Val (TOk q) else Val TNotInt.
Definition to_int (t : ity) (d : dec) : res toint :=
  r <- to_i128 d ;;
  match r with
  | TOk v => if in_range t v then Val (TOk v) else Val TRange
  | e => Val e
  end.
