(* driver.ml — runs the extracted model and specification on one operation per
   line (same protocol as the Rust harness) and prints
       <model outcome> TAB <spec: allowed outcomes separated by '|'>
   Hand-written glue: hex <-> extracted Z, tokenising, dispatch, printing. *)
open Model

(* ---- hex <-> Z (extracted inductive positive / z) ---- *)
let hexval c =
  match c with
  | '0' .. '9' -> Char.code c - 48
  | 'a' .. 'f' -> Char.code c - 87
  | 'A' .. 'F' -> Char.code c - 55
  | _ -> failwith "hex digit"

let pos_of_hex (s : string) : positive option =
  let acc = ref None in
  String.iter
    (fun c ->
      let v = hexval c in
      for k = 3 downto 0 do
        let bit = (v lsr k) land 1 = 1 in
        acc :=
          (match !acc with
          | None -> if bit then Some XH else None
          | Some p -> Some (if bit then XI p else XO p))
      done)
    s;
  !acc

let z_of_hex (s : string) : z =
  let neg, t =
    if String.length s > 0 && s.[0] = '-' then (true, String.sub s 1 (String.length s - 1))
    else (false, s)
  in
  match pos_of_hex t with
  | None -> Z0
  | Some p -> if neg then Zneg p else Zpos p

let z_of_int (i : int) : z =
  if i = 0 then Z0
  else
    let rec pos n = if n = 1 then XH else if n land 1 = 1 then XI (pos (n lsr 1)) else XO (pos (n lsr 1)) in
    if i > 0 then Zpos (pos i) else Zneg (pos (-i))

let hex_of_pos (p : positive) : string =
  (* bits, least significant first *)
  let rec bits p acc = match p with XH -> 1 :: acc | XO q -> bits q (0 :: acc) | XI q -> bits q (1 :: acc) in
  let msb_first = bits p [] in
  let n = List.length msb_first in
  let pad = (4 - (n mod 4)) mod 4 in
  let l = List.init pad (fun _ -> 0) @ msb_first in
  let buf = Buffer.create 34 in
  let rec go l =
    match l with
    | a :: b :: c :: d :: rest ->
        Buffer.add_char buf "0123456789abcdef".[(a * 8) + (b * 4) + (c * 2) + d];
        go rest
    | [] -> ()
    | _ -> failwith "bits"
  in
  go l;
  Buffer.contents buf

let hex_of_z (x : z) : string =
  match x with Z0 -> "0" | Zpos p -> hex_of_pos p | Zneg p -> "-" ^ hex_of_pos p

let rec int_of_pos p = match p with XH -> 1 | XO q -> 2 * int_of_pos q | XI q -> (2 * int_of_pos q) + 1
let int_of_z x = match x with Z0 -> 0 | Zpos p -> int_of_pos p | Zneg p -> - int_of_pos p
let dec_of_z x = string_of_int (int_of_z x) (* only for small values *)

(* ---- printing outcomes ---- *)
let out_dec d = "V " ^ hex_of_z d.coeff ^ " " ^ dec_of_z d.nfd
let out_res f r = match r with Val a -> f a | Panic -> "P" | UB -> "UB"
let out_opt f o = match o with Some a -> f a | None -> "N"
let out_sig f o = match o with Some a -> f a | None -> "P"
let out_z x = "I " ^ hex_of_z x
let out_smallz x = "I " ^ dec_of_z x
let out_pair (q, r) = "Q " ^ hex_of_z q ^ " " ^ hex_of_z r
let out_bool b = if b then "B 1" else "B 0"

let mode_of_int i =
  match i with
  | 0 -> R05Up | 1 -> RCeiling | 2 -> RDown | 3 -> RFloor
  | 4 -> RHalfDown | 5 -> RHalfEven | 6 -> RHalfUp | _ -> RUp

let mkd c p = { coeff = z_of_hex c; nfd = z_of_int (int_of_string p) }

let split_op s =
  match String.split_on_char '.' s with
  | [ a ] -> (a, "", "")
  | [ a; b ] -> (a, b, "")
  | a :: b :: c :: _ -> (a, b, c)
  | [] -> ("", "", "")

(* returns (model outcome, spec outcome) *)
let run (pf : profile) (line : string) : string * string =
  let t = Array.of_list (List.filter (fun s -> s <> "") (String.split_on_char ' ' line)) in
  let fam, op, ty = split_op t.(0) in
  let m = mode_of_int (int_of_string t.(1)) in
  let a k = t.(2 + k) in
  let zi k = z_of_int (int_of_string (a k)) in
  ignore ty;
  match (fam, op) with
  | "un", "round" ->
      let d = mkd (a 0) (a 1) in
      (out_res out_dec (dec_round pf m d (zi 2)), out_sig out_dec (round_spec m d (zi 2)))
  | "un", "cround" ->
      let d = mkd (a 0) (a 1) in
      (out_res (out_opt out_dec) (dec_checked_round pf m d (zi 2)), out_opt out_dec (round_spec m d (zi 2)))
  | "w", "divr" ->
      let n = z_of_hex (a 0) and d = z_of_hex (a 1) in
      (out_res out_z (i128_div_rounded pf n d m), out_z (rndq m n d))
  | _ -> ("X", "X")

let () =
  let pf = if Array.length Sys.argv > 1 && Sys.argv.(1) = "release" then release else dev in
  try
    while true do
      let line = input_line stdin in
      if line = "" || line.[0] = '#' then print_endline "#"
      else begin
        let mo, sp = try run pf line with e -> ("X! " ^ Printexc.to_string e, "X!") in
        print_string mo;
        print_char '\t';
        print_endline sp
      end
    done
  with End_of_file -> ()
