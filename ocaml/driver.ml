(* driver.ml — runs the extracted model and specification.
   stdin : one case per line   "<op line>\t<implementation outcome>"
   stdout: one verdict per line
           "<model outcome>\t<corr>\t<acc>\t<known>"
     corr  = 1 iff implementation outcome = model outcome        (correspondence)
     acc   = 1 iff the specification accepts the implementation outcome (oracle)
     known = tag of the known-finding class the input belongs to, or "-"
   Hand-written glue only: hex <-> extracted Z, tokenising, dispatch, printing. *)
open Model

(* ---- hex <-> Z (extracted inductive positive / z) ---- *)
let hexval c =
  match c with
  | '0' .. '9' -> Char.code c - 48
  | 'a' .. 'f' -> Char.code c - 87
  | 'A' .. 'F' -> Char.code c - 55
  | _ -> failwith "hex digit"

let pos_of_hex (s : string) : positive option =
  let acc = ref None in
  String.iter
    (fun c ->
      let v = hexval c in
      for k = 3 downto 0 do
        let bit = (v lsr k) land 1 = 1 in
        acc :=
          (match !acc with
          | None -> if bit then Some XH else None
          | Some p -> Some (if bit then XI p else XO p))
      done)
    s;
  !acc

let z_of_hex (s : string) : z =
  let neg, t =
    if String.length s > 0 && s.[0] = '-' then (true, String.sub s 1 (String.length s - 1))
    else (false, s)
  in
  match pos_of_hex t with
  | None -> Z0
  | Some p -> if neg then Zneg p else Zpos p

let z_of_int (i : int) : z =
  if i = 0 then Z0
  else
    let rec pos n = if n = 1 then XH else if n land 1 = 1 then XI (pos (n lsr 1)) else XO (pos (n lsr 1)) in
    if i > 0 then Zpos (pos i) else Zneg (pos (-i))

let hex_of_pos (p : positive) : string =
  let rec bits p acc = match p with XH -> 1 :: acc | XO q -> bits q (0 :: acc) | XI q -> bits q (1 :: acc) in
  let msb_first = bits p [] in
  let n = List.length msb_first in
  let pad = (4 - (n mod 4)) mod 4 in
  let l = List.init pad (fun _ -> 0) @ msb_first in
  let buf = Buffer.create 34 in
  let rec go l =
    match l with
    | a :: b :: c :: d :: rest ->
        Buffer.add_char buf "0123456789abcdef".[(a * 8) + (b * 4) + (c * 2) + d];
        go rest
    | [] -> ()
    | _ -> failwith "bits"
  in
  go l;
  Buffer.contents buf

let hex_of_z (x : z) : string =
  match x with Z0 -> "0" | Zpos p -> hex_of_pos p | Zneg p -> "-" ^ hex_of_pos p

let rec int_of_pos p = match p with XH -> 1 | XO q -> 2 * int_of_pos q | XI q -> (2 * int_of_pos q) + 1
let int_of_z x = match x with Z0 -> 0 | Zpos p -> int_of_pos p | Zneg p -> - int_of_pos p
let zd s = z_of_int (int_of_string s)  (* small decimal argument *)

(* ---- outcomes ---- *)
let ekinds =
  [ ("empty", 1); ("invalid", 2); ("fraclimit", 3); ("poverflow", 4);
    ("maxfrac", 11); ("overflow", 12); ("inf", 13); ("nan", 14); ("divzero", 15);
    ("notint", 21); ("range", 22) ]
let ekind_of_string s = z_of_int (List.assoc s ekinds)
let string_of_ekind k =
  let i = int_of_z k in
  try fst (List.find (fun (_, v) -> v = i) ekinds) with Not_found -> string_of_int i

let bytes_of_hex s =
  if s = "-" then []
  else List.init (String.length s / 2) (fun i -> z_of_int ((hexval s.[2 * i] * 16) + hexval s.[(2 * i) + 1]))
let hex_of_bytes l =
  if l = [] then "-" else String.concat "" (List.map (fun b -> Printf.sprintf "%02x" (int_of_z b)) l)

let print_out (o : out) : string =
  match o with
  | OV d -> "V " ^ hex_of_z d.coeff ^ " " ^ string_of_int (int_of_z d.nfd)
  | ON -> "N"
  | OP -> "P"
  | OE k -> "E " ^ string_of_ekind k
  | OB b -> if b then "B 1" else "B 0"
  | OO None -> "O none"
  | OO (Some Lt) -> "O lt"
  | OO (Some Eq) -> "O eq"
  | OO (Some Gt) -> "O gt"
  | OI x -> "I " ^ hex_of_z x
  | OQ (a, b) -> "Q " ^ hex_of_z a ^ " " ^ hex_of_z b
  | OS s -> "S " ^ hex_of_bytes s
  | OF b -> "F " ^ hex_of_z b
  | OL l -> "L " ^ (if l = [] then "-" else String.concat "," (List.map hex_of_z l))
  | OUB -> "UB"
  | OFuel -> "FUEL"
  | OX -> "X"

let parse_out (s : string) : out =
  match List.filter (fun t -> t <> "") (String.split_on_char ' ' s) with
  | [ "V"; c; p ] -> OV { coeff = z_of_hex c; nfd = zd p }
  | [ "N" ] -> ON
  | [ "P" ] -> OP
  | [ "E"; k ] -> OE (ekind_of_string k)
  | [ "B"; b ] -> OB (b = "1")
  | [ "O"; "none" ] -> OO None
  | [ "O"; "lt" ] -> OO (Some Lt)
  | [ "O"; "eq" ] -> OO (Some Eq)
  | [ "O"; "gt" ] -> OO (Some Gt)
  | [ "I"; x ] -> OI (z_of_hex x)
  | [ "Q"; a; b ] -> OQ (z_of_hex a, z_of_hex b)
  | [ "S"; h ] -> OS (bytes_of_hex h)
  | [ "F"; b ] -> OF (z_of_hex b)
  | [ "L"; "-" ] -> OL []
  | [ "L"; l ] -> OL (List.map z_of_hex (String.split_on_char ',' l))
  | _ -> OX

let mode_of_int i =
  match i with
  | 0 -> R05Up | 1 -> RCeiling | 2 -> RDown | 3 -> RFloor
  | 4 -> RHalfDown | 5 -> RHalfEven | 6 -> RHalfUp | _ -> RUp

let binop_of_string s =
  match s with
  | "add" -> Badd | "sub" -> Bsub | "mul" -> Bmul | "div" -> Bdiv | "rem" -> Brem
  | "cadd" -> Bcadd | "csub" -> Bcsub | "cmul" -> Bcmul | "cdiv" -> Bcdiv | "crem" -> Bcrem
  | "divr" -> Bdivr | "mulr" -> Bmulr | "quant" -> Bquant
  | "eq" -> Beq | "ne" -> Bne | "lt" -> Blt | "le" -> Ble | "gt" -> Bgt | "ge" -> Bge
  | "cmp" -> Bcmp | "pcmp" -> Bpcmp | "min" -> Bmin | "max" -> Bmax
  | _ -> failwith "binop"

let ity_of_string s =
  match s with
  | "u8" -> U8 | "i8" -> I8 | "u16" -> U16 | "i16" -> I16 | "u32" -> U32 | "i32" -> I32
  | "u64" -> U64 | "i64" -> I64 | "u128" -> U128 | "i128" -> I128
  | _ -> failwith "ity"

let kop_of_string s =
  match s with
  | "i256" -> Ki256 | "sdmf" -> Ksdmf | "divr" -> Kdivr | "sdr" -> Ksdr | "mdr" -> Kmdr
  | "dmf" -> Kdmf | "mag" -> Kmag | "mulw" -> Kmulw | "idiv" -> Kidiv
  | "idiv64" -> Kidiv64 | "idivs" -> Kidivs | "msb" -> Kmsb | "lt5" -> Klt5 | "chd" -> Kchd | "chv" -> Kchv
  | _ -> failwith "kop"

let mkd c p = { coeff = z_of_hex c; nfd = zd p }

(* returns (model outcome, spec accepts impl, known tag) *)
let run (pf : profile) (line : string) (impl : out) : out * bool * string =
  let t = Array.of_list (List.filter (fun s -> s <> "") (String.split_on_char ' ' line)) in
  let parts = Array.of_list (String.split_on_char '.' t.(0)) in
  let fam = parts.(0) in
  let op = if Array.length parts > 1 then parts.(1) else "" in
  let ty = if Array.length parts > 2 then parts.(2) else "" in
  let m = mode_of_int (int_of_string t.(1) land 7) in   (* mode + 8 = same mode, run after another thread's mode changes *)
  let a k = t.(2 + k) in
  let has k = Array.length t > 2 + k in
  let nn k = if has k then zd (a k) else Z0 in
  match fam with
  | "dd" ->
      let b = binop_of_string op in
      let x = mkd (a 0) (a 1) and y = mkd (a 2) (a 3) and n = nn 4 in
      (run_dd pf m b x y n, acc_dd m b x y n impl, "-")
  | "di" ->
      let b = binop_of_string op in
      let x = mkd (a 0) (a 1) and i = z_of_hex (a 2) and n = nn 3 in
      (run_di pf m b (ity_of_string ty) x i n, acc_di m b x i n impl, if known_K1 b n then "K1" else "-")
  | "id" ->
      let b = binop_of_string op in
      let i = z_of_hex (a 0) and y = mkd (a 1) (a 2) and n = nn 3 in
      (run_id pf m b (ity_of_string ty) i y n, acc_id m b i y n impl, if known_K1 b n then "K1" else "-")
  | "ii" ->
      let b = binop_of_string op in
      let i = z_of_hex (a 0) and j = z_of_hex (a 1) and n = nn 2 in
      (run_ii pf m b i j n, acc_ii m b i j n impl, if known_K1 b n then "K1" else "-")
  | "un" ->
      let d = mkd (a 0) (a 1) in
      let u =
        match op with
        | "round" -> Uround | "cround" -> Ucround | "floor" -> Ufloor | "ceil" -> Uceil
        | "trunc" -> Utrunc | "fract" -> Ufract | "abs" -> Uabs | "neg" -> Uneg | "mag" -> Umag
        | "iszero" -> Uiszero | "isone" -> Uisone | "isneg" -> Uisneg | "ispos" -> Uispos
        | "toint" -> Utoint (ity_of_string ty)
        | _ -> failwith "unop"
      in
      let n = nn 2 in
      (run_un pf m u d n, acc_un m u d n impl, "-")
  | "cv" -> (
      match op with
      | "fromint" -> let i = z_of_hex (a 0) in (run_fromint i, acc_fromint i impl, "-")
      | "fromu128" -> let u = z_of_hex (a 0) in (run_fromu128 u, acc_fromu128 u impl, "-")
      | _ -> failwith "cv")
  | "str" -> (
      match op with
      | "parse" | "macro" | "core" ->
          let bytes = bytes_of_hex (a 0) in
          let sop = (match op with "parse" -> Sparse | "macro" -> Smacro | _ -> Score) in
          let kn = int_of_z (known_str bytes) in
          (canon_perr (run_str pf sop bytes), acc_str sop bytes impl,
           if kn = 2 then "K2" else if kn = 4 then "K4" else "-")
      | "tostring" -> let d = mkd (a 0) (a 1) in (run_tostring pf d, acc_tostring d impl, "-")
      | "roundtrip" -> let d = mkd (a 0) (a 1) in (run_roundtrip pf d, acc_roundtrip d impl, "-")
      | _ -> failwith "str")
  | "fmt" ->
      (* fmt.<id>[.i] m w p c nfd fillhex align plus alt zero   (w, p: decimal or '-') *)
      let w = if a 0 = "-" then z_of_int (-1) else zd (a 0) in
      let pr = if a 1 = "-" then z_of_int (-1) else zd (a 1) in
      let fill = bytes_of_hex (a 4) in
      let al = zd (a 5) in
      let fl k = a k = "1" in
      if ty = "i" then
        let c = z_of_hex (a 2) in
        (run_fmt_int fill al (fl 6) (fl 7) (fl 8) w c, acc_fmt_int fill al (fl 6) (fl 7) (fl 8) w c impl, "-")
      else
        let d = mkd (a 2) (a 3) in
        (run_fmt pf m fill al (fl 6) (fl 7) (fl 8) w pr d, acc_fmt m fill al (fl 6) (fl 7) (fl 8) w pr d impl, "-")
  | "fl" -> (
      match op with
      | "f64" | "f32" -> let d = mkd (a 0) (a 1) in
          (run_tofloat pf (op = "f64") d, acc_tofloat (op = "f64") d impl, "-")
      | "fromf64" | "fromf32" -> let b = z_of_hex (a 0) in
          (run_fromfloat pf (op = "fromf64") b, acc_fromfloat (op = "fromf64") b impl, "-")
      | "ratio" -> let d = mkd (a 0) (a 1) in (run_ratio pf d, acc_ratio d impl, "-")
      | _ -> failwith "fl")
  | "thr" ->
      (* thr.forced|free m ev ev ...   S<t>=<m> G<t> R<t>:c:p:n D<t>:c1:p1:c2:p2:n M<t>:c1:p1:c2:p2 *)
      let evs = ref [] in
      for k = 0 to Array.length t - 3 do
        let e = a k in
        let kind = e.[0] in
        let body = String.sub e 1 (String.length e - 1) in
        let f = Array.of_list (String.split_on_char ':' body) in
        let ev =
          match kind with
          | 'S' -> (match String.split_on_char '=' body with
                    | [ tt; mm ] -> TSet (zd tt, mode_of_int (int_of_string mm)) | _ -> failwith "S")
          | 'G' -> TGet (zd body)
          | 'R' -> TRound (zd f.(0), mkd f.(1) f.(2), zd f.(3))
          | 'D' -> TDivR (zd f.(0), mkd f.(1) f.(2), mkd f.(3) f.(4), zd f.(5))
          | 'M' -> TMul (zd f.(0), mkd f.(1) f.(2), mkd f.(3) f.(4))
          | 'V' -> TDiv (zd f.(0), mkd f.(1) f.(2), mkd f.(3) f.(4))
          | 'U' -> TMulR (zd f.(0), mkd f.(1) f.(2), mkd f.(3) f.(4), zd f.(5))
          | 'F' -> TFmt (zd f.(0), mkd f.(1) f.(2), zd f.(3))
          | _ -> failwith "event"
        in
        evs := ev :: !evs
      done;
      let h = List.rev !evs in
      (run_thr pf h, acc_thr pf h impl, "-")
  | "w" ->
      let k = kop_of_string op in
      let g i = if has i then z_of_hex (a i) else Z0 in
      (run_k pf m k (g 0) (g 1) (g 2), acc_k m k (g 0) (g 1) (g 2) impl, "-")
  | _ -> failwith "family"

let () =
  let pf =
    if Array.length Sys.argv > 1 then
      (match Sys.argv.(1) with
       | "release" -> release
       | "ovf-nodbg" -> { ovf_checks = true; dbg_asserts = false }
       | "noovf-dbg" -> { ovf_checks = false; dbg_asserts = true }
       | _ -> dev)
    else dev in
  try
    while true do
      let line = input_line stdin in
      if line = "" || line.[0] = '#' then print_endline "#"
      else begin
        let opl, impl_s =
          match String.index_opt line '\t' with
          | Some i -> (String.sub line 0 i, String.sub line (i + 1) (String.length line - i - 1))
          | None -> (line, "X")
        in
        match (try Ok (run pf opl (parse_out impl_s)) with e -> Error (Printexc.to_string e)) with
        | Ok (mo, acc, known) ->
            let io = parse_out impl_s in
            let io = if String.length opl > 9 && (String.sub opl 0 9 = "str.parse" || String.sub opl 0 9 = "str.macro") then canon_perr io else io in
            let corr = out_eqb mo io in
            Printf.printf "%s\t%d\t%d\t%s\n" (print_out mo) (if corr then 1 else 0) (if acc then 1 else 0) known
        | Error e -> Printf.printf "X! %s\t0\t0\t-\n" e
      end
    done
  with End_of_file -> ()
