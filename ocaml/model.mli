
val negb : bool -> bool

type nat =
| O
| S of nat

val option_map : ('a1 -> 'a2) -> 'a1 option -> 'a2 option

val fst : ('a1 * 'a2) -> 'a1

val snd : ('a1 * 'a2) -> 'a2

type comparison =
| Eq
| Lt
| Gt

val compOpp : comparison -> comparison

val add : nat -> nat -> nat

type positive =
| XI of positive
| XO of positive
| XH

type n =
| N0
| Npos of positive

type z =
| Z0
| Zpos of positive
| Zneg of positive

module Pos :
 sig
  type mask =
  | IsNul
  | IsPos of positive
  | IsNeg
 end

module Coq_Pos :
 sig
  val succ : positive -> positive

  val add : positive -> positive -> positive

  val add_carry : positive -> positive -> positive

  val pred_double : positive -> positive

  type mask = Pos.mask =
  | IsNul
  | IsPos of positive
  | IsNeg

  val succ_double_mask : mask -> mask

  val double_mask : mask -> mask

  val double_pred_mask : positive -> mask

  val sub_mask : positive -> positive -> mask

  val sub_mask_carry : positive -> positive -> mask

  val mul : positive -> positive -> positive

  val iter : ('a1 -> 'a1) -> 'a1 -> positive -> 'a1

  val compare_cont : comparison -> positive -> positive -> comparison

  val compare : positive -> positive -> comparison

  val eqb : positive -> positive -> bool

  val iter_op : ('a1 -> 'a1 -> 'a1) -> positive -> 'a1 -> 'a1

  val to_nat : positive -> nat
 end

module N :
 sig
  val succ_double : n -> n

  val double : n -> n

  val sub : n -> n -> n

  val compare : n -> n -> comparison

  val leb : n -> n -> bool

  val pos_div_eucl : positive -> n -> n * n
 end

module Z :
 sig
  val double : z -> z

  val succ_double : z -> z

  val pred_double : z -> z

  val pos_sub : positive -> positive -> z

  val add : z -> z -> z

  val opp : z -> z

  val sub : z -> z -> z

  val mul : z -> z -> z

  val pow_pos : z -> positive -> z

  val pow : z -> z -> z

  val compare : z -> z -> comparison

  val sgn : z -> z

  val leb : z -> z -> bool

  val ltb : z -> z -> bool

  val geb : z -> z -> bool

  val gtb : z -> z -> bool

  val eqb : z -> z -> bool

  val abs : z -> z

  val to_nat : z -> nat

  val of_N : n -> z

  val pos_div_eucl : positive -> z -> z * z

  val div_eucl : z -> z -> z * z

  val modulo : z -> z -> z

  val quotrem : z -> z -> z * z

  val quot : z -> z -> z

  val rem : z -> z -> z

  val odd : z -> bool
 end

val nth_error : 'a1 list -> nat -> 'a1 option

type 'a res =
| Val of 'a
| Panic
| UB

val bind : 'a1 res -> ('a1 -> 'a2 res) -> 'a2 res

type profile = { ovf_checks : bool; dbg_asserts : bool }

val dev : profile

val release : profile

type ity =
| U8
| I8
| U16
| I16
| U32
| I32
| U64
| I64
| U128
| I128
| Usize
| Isize

val bits : ity -> z

val signed : ity -> bool

val tmin : ity -> z

val tmax : ity -> z

val in_range : ity -> z -> bool

val wrap : ity -> z -> z

val ck : profile -> ity -> z -> z res

val ck_add : profile -> ity -> z -> z -> z res

val ck_sub : profile -> ity -> z -> z -> z res

val ck_neg : profile -> ity -> z -> z res

val checked : ity -> z -> z option

val t_div : ity -> z -> z -> z res

val t_rem : ity -> z -> z -> z res

val ck_shl : profile -> ity -> z -> z -> z res

val cast : ity -> z -> z

val index : 'a1 list -> z -> 'a1 res

type mode =
| R05Up
| RCeiling
| RDown
| RFloor
| RHalfDown
| RHalfEven
| RHalfUp
| RUp

val all_modes : mode list

type dec = { coeff : z; nfd : z }

val dZERO : dec

val pOWERS_OF_10 : z list

val cHECKED_TEN_POW_LIMIT : z

val rOUND_SHORTCUT : z

val ten_pow : z -> z res

val checked_ten_pow : z -> z option res

val mul_pow_ten : z -> z -> z res

val checked_mul_pow_ten : z -> z -> z option res

val rnd : mode -> z -> z -> z

val rndq : mode -> z -> z -> z

val i128_div_mod_floor : profile -> z -> z -> (z * z) res

val incr : z -> z option res

val keep : z -> z option res

val round_quot : profile -> z -> z -> z -> mode -> z option res

val i128_div_rounded : profile -> z -> z -> mode -> z res

val dec_round : profile -> mode -> dec -> z -> dec res

val dec_checked_round : profile -> mode -> dec -> z -> dec option res

val round_spec : mode -> dec -> z -> dec option
