
(** val negb : bool -> bool **)

let negb = function
| true -> false
| false -> true

type nat =
| O
| S of nat

(** val option_map : ('a1 -> 'a2) -> 'a1 option -> 'a2 option **)

let option_map f = function
| Some a -> Some (f a)
| None -> None

(** val fst : ('a1 * 'a2) -> 'a1 **)

let fst = function
| (x, _) -> x

(** val snd : ('a1 * 'a2) -> 'a2 **)

let snd = function
| (_, y) -> y

type comparison =
| Eq
| Lt
| Gt

(** val compOpp : comparison -> comparison **)

let compOpp = function
| Eq -> Eq
| Lt -> Gt
| Gt -> Lt

module Coq__1 = struct
 (** val add : nat -> nat -> nat **)
 let rec add n0 m =
   match n0 with
   | O -> m
   | S p -> S (add p m)
end
include Coq__1

type positive =
| XI of positive
| XO of positive
| XH

type n =
| N0
| Npos of positive

type z =
| Z0
| Zpos of positive
| Zneg of positive

module Pos =
 struct
  type mask =
  | IsNul
  | IsPos of positive
  | IsNeg
 end

module Coq_Pos =
 struct
  (** val succ : positive -> positive **)

  let rec succ = function
  | XI p -> XO (succ p)
  | XO p -> XI p
  | XH -> XO XH

  (** val add : positive -> positive -> positive **)

  let rec add x y =
    match x with
    | XI p ->
      (match y with
       | XI q -> XO (add_carry p q)
       | XO q -> XI (add p q)
       | XH -> XO (succ p))
    | XO p ->
      (match y with
       | XI q -> XI (add p q)
       | XO q -> XO (add p q)
       | XH -> XI p)
    | XH -> (match y with
             | XI q -> XO (succ q)
             | XO q -> XI q
             | XH -> XO XH)

  (** val add_carry : positive -> positive -> positive **)

  and add_carry x y =
    match x with
    | XI p ->
      (match y with
       | XI q -> XI (add_carry p q)
       | XO q -> XO (add_carry p q)
       | XH -> XI (succ p))
    | XO p ->
      (match y with
       | XI q -> XO (add_carry p q)
       | XO q -> XI (add p q)
       | XH -> XO (succ p))
    | XH ->
      (match y with
       | XI q -> XI (succ q)
       | XO q -> XO (succ q)
       | XH -> XI XH)

  (** val pred_double : positive -> positive **)

  let rec pred_double = function
  | XI p -> XI (XO p)
  | XO p -> XI (pred_double p)
  | XH -> XH

  type mask = Pos.mask =
  | IsNul
  | IsPos of positive
  | IsNeg

  (** val succ_double_mask : mask -> mask **)

  let succ_double_mask = function
  | IsNul -> IsPos XH
  | IsPos p -> IsPos (XI p)
  | IsNeg -> IsNeg

  (** val double_mask : mask -> mask **)

  let double_mask = function
  | IsPos p -> IsPos (XO p)
  | x0 -> x0

  (** val double_pred_mask : positive -> mask **)

  let double_pred_mask = function
  | XI p -> IsPos (XO (XO p))
  | XO p -> IsPos (XO (pred_double p))
  | XH -> IsNul

  (** val sub_mask : positive -> positive -> mask **)

  let rec sub_mask x y =
    match x with
    | XI p ->
      (match y with
       | XI q -> double_mask (sub_mask p q)
       | XO q -> succ_double_mask (sub_mask p q)
       | XH -> IsPos (XO p))
    | XO p ->
      (match y with
       | XI q -> succ_double_mask (sub_mask_carry p q)
       | XO q -> double_mask (sub_mask p q)
       | XH -> IsPos (pred_double p))
    | XH -> (match y with
             | XH -> IsNul
             | _ -> IsNeg)

  (** val sub_mask_carry : positive -> positive -> mask **)

  and sub_mask_carry x y =
    match x with
    | XI p ->
      (match y with
       | XI q -> succ_double_mask (sub_mask_carry p q)
       | XO q -> double_mask (sub_mask p q)
       | XH -> IsPos (pred_double p))
    | XO p ->
      (match y with
       | XI q -> double_mask (sub_mask_carry p q)
       | XO q -> succ_double_mask (sub_mask_carry p q)
       | XH -> double_pred_mask p)
    | XH -> IsNeg

  (** val mul : positive -> positive -> positive **)

  let rec mul x y =
    match x with
    | XI p -> add y (XO (mul p y))
    | XO p -> XO (mul p y)
    | XH -> y

  (** val iter : ('a1 -> 'a1) -> 'a1 -> positive -> 'a1 **)

  let rec iter f x = function
  | XI n' -> f (iter f (iter f x n') n')
  | XO n' -> iter f (iter f x n') n'
  | XH -> f x

  (** val compare_cont : comparison -> positive -> positive -> comparison **)

  let rec compare_cont r x y =
    match x with
    | XI p ->
      (match y with
       | XI q -> compare_cont r p q
       | XO q -> compare_cont Gt p q
       | XH -> Gt)
    | XO p ->
      (match y with
       | XI q -> compare_cont Lt p q
       | XO q -> compare_cont r p q
       | XH -> Gt)
    | XH -> (match y with
             | XH -> r
             | _ -> Lt)

  (** val compare : positive -> positive -> comparison **)

  let compare =
    compare_cont Eq

  (** val eqb : positive -> positive -> bool **)

  let rec eqb p q =
    match p with
    | XI p0 -> (match q with
                | XI q0 -> eqb p0 q0
                | _ -> false)
    | XO p0 -> (match q with
                | XO q0 -> eqb p0 q0
                | _ -> false)
    | XH -> (match q with
             | XH -> true
             | _ -> false)

  (** val iter_op : ('a1 -> 'a1 -> 'a1) -> positive -> 'a1 -> 'a1 **)

  let rec iter_op op p a =
    match p with
    | XI p0 -> op a (iter_op op p0 (op a a))
    | XO p0 -> iter_op op p0 (op a a)
    | XH -> a

  (** val to_nat : positive -> nat **)

  let to_nat x =
    iter_op Coq__1.add x (S O)
 end

module N =
 struct
  (** val succ_double : n -> n **)

  let succ_double = function
  | N0 -> Npos XH
  | Npos p -> Npos (XI p)

  (** val double : n -> n **)

  let double = function
  | N0 -> N0
  | Npos p -> Npos (XO p)

  (** val sub : n -> n -> n **)

  let sub n0 m =
    match n0 with
    | N0 -> N0
    | Npos n' ->
      (match m with
       | N0 -> n0
       | Npos m' ->
         (match Coq_Pos.sub_mask n' m' with
          | Coq_Pos.IsPos p -> Npos p
          | _ -> N0))

  (** val compare : n -> n -> comparison **)

  let compare n0 m =
    match n0 with
    | N0 -> (match m with
             | N0 -> Eq
             | Npos _ -> Lt)
    | Npos n' -> (match m with
                  | N0 -> Gt
                  | Npos m' -> Coq_Pos.compare n' m')

  (** val leb : n -> n -> bool **)

  let leb x y =
    match compare x y with
    | Gt -> false
    | _ -> true

  (** val pos_div_eucl : positive -> n -> n * n **)

  let rec pos_div_eucl a b =
    match a with
    | XI a' ->
      let (q, r) = pos_div_eucl a' b in
      let r' = succ_double r in
      if leb b r' then ((succ_double q), (sub r' b)) else ((double q), r')
    | XO a' ->
      let (q, r) = pos_div_eucl a' b in
      let r' = double r in
      if leb b r' then ((succ_double q), (sub r' b)) else ((double q), r')
    | XH ->
      (match b with
       | N0 -> (N0, (Npos XH))
       | Npos p -> (match p with
                    | XH -> ((Npos XH), N0)
                    | _ -> (N0, (Npos XH))))
 end

module Z =
 struct
  (** val double : z -> z **)

  let double = function
  | Z0 -> Z0
  | Zpos p -> Zpos (XO p)
  | Zneg p -> Zneg (XO p)

  (** val succ_double : z -> z **)

  let succ_double = function
  | Z0 -> Zpos XH
  | Zpos p -> Zpos (XI p)
  | Zneg p -> Zneg (Coq_Pos.pred_double p)

  (** val pred_double : z -> z **)

  let pred_double = function
  | Z0 -> Zneg XH
  | Zpos p -> Zpos (Coq_Pos.pred_double p)
  | Zneg p -> Zneg (XI p)

  (** val pos_sub : positive -> positive -> z **)

  let rec pos_sub x y =
    match x with
    | XI p ->
      (match y with
       | XI q -> double (pos_sub p q)
       | XO q -> succ_double (pos_sub p q)
       | XH -> Zpos (XO p))
    | XO p ->
      (match y with
       | XI q -> pred_double (pos_sub p q)
       | XO q -> double (pos_sub p q)
       | XH -> Zpos (Coq_Pos.pred_double p))
    | XH ->
      (match y with
       | XI q -> Zneg (XO q)
       | XO q -> Zneg (Coq_Pos.pred_double q)
       | XH -> Z0)

  (** val add : z -> z -> z **)

  let add x y =
    match x with
    | Z0 -> y
    | Zpos x' ->
      (match y with
       | Z0 -> x
       | Zpos y' -> Zpos (Coq_Pos.add x' y')
       | Zneg y' -> pos_sub x' y')
    | Zneg x' ->
      (match y with
       | Z0 -> x
       | Zpos y' -> pos_sub y' x'
       | Zneg y' -> Zneg (Coq_Pos.add x' y'))

  (** val opp : z -> z **)

  let opp = function
  | Z0 -> Z0
  | Zpos x0 -> Zneg x0
  | Zneg x0 -> Zpos x0

  (** val sub : z -> z -> z **)

  let sub m n0 =
    add m (opp n0)

  (** val mul : z -> z -> z **)

  let mul x y =
    match x with
    | Z0 -> Z0
    | Zpos x' ->
      (match y with
       | Z0 -> Z0
       | Zpos y' -> Zpos (Coq_Pos.mul x' y')
       | Zneg y' -> Zneg (Coq_Pos.mul x' y'))
    | Zneg x' ->
      (match y with
       | Z0 -> Z0
       | Zpos y' -> Zneg (Coq_Pos.mul x' y')
       | Zneg y' -> Zpos (Coq_Pos.mul x' y'))

  (** val pow_pos : z -> positive -> z **)

  let pow_pos z0 =
    Coq_Pos.iter (mul z0) (Zpos XH)

  (** val pow : z -> z -> z **)

  let pow x = function
  | Z0 -> Zpos XH
  | Zpos p -> pow_pos x p
  | Zneg _ -> Z0

  (** val compare : z -> z -> comparison **)

  let compare x y =
    match x with
    | Z0 -> (match y with
             | Z0 -> Eq
             | Zpos _ -> Lt
             | Zneg _ -> Gt)
    | Zpos x' -> (match y with
                  | Zpos y' -> Coq_Pos.compare x' y'
                  | _ -> Gt)
    | Zneg x' ->
      (match y with
       | Zneg y' -> compOpp (Coq_Pos.compare x' y')
       | _ -> Lt)

  (** val sgn : z -> z **)

  let sgn = function
  | Z0 -> Z0
  | Zpos _ -> Zpos XH
  | Zneg _ -> Zneg XH

  (** val leb : z -> z -> bool **)

  let leb x y =
    match compare x y with
    | Gt -> false
    | _ -> true

  (** val ltb : z -> z -> bool **)

  let ltb x y =
    match compare x y with
    | Lt -> true
    | _ -> false

  (** val geb : z -> z -> bool **)

  let geb x y =
    match compare x y with
    | Lt -> false
    | _ -> true

  (** val gtb : z -> z -> bool **)

  let gtb x y =
    match compare x y with
    | Gt -> true
    | _ -> false

  (** val eqb : z -> z -> bool **)

  let eqb x y =
    match x with
    | Z0 -> (match y with
             | Z0 -> true
             | _ -> false)
    | Zpos p -> (match y with
                 | Zpos q -> Coq_Pos.eqb p q
                 | _ -> false)
    | Zneg p -> (match y with
                 | Zneg q -> Coq_Pos.eqb p q
                 | _ -> false)

  (** val abs : z -> z **)

  let abs = function
  | Zneg p -> Zpos p
  | x -> x

  (** val to_nat : z -> nat **)

  let to_nat = function
  | Zpos p -> Coq_Pos.to_nat p
  | _ -> O

  (** val of_N : n -> z **)

  let of_N = function
  | N0 -> Z0
  | Npos p -> Zpos p

  (** val pos_div_eucl : positive -> z -> z * z **)

  let rec pos_div_eucl a b =
    match a with
    | XI a' ->
      let (q, r) = pos_div_eucl a' b in
      let r' = add (mul (Zpos (XO XH)) r) (Zpos XH) in
      if ltb r' b
      then ((mul (Zpos (XO XH)) q), r')
      else ((add (mul (Zpos (XO XH)) q) (Zpos XH)), (sub r' b))
    | XO a' ->
      let (q, r) = pos_div_eucl a' b in
      let r' = mul (Zpos (XO XH)) r in
      if ltb r' b
      then ((mul (Zpos (XO XH)) q), r')
      else ((add (mul (Zpos (XO XH)) q) (Zpos XH)), (sub r' b))
    | XH -> if leb (Zpos (XO XH)) b then (Z0, (Zpos XH)) else ((Zpos XH), Z0)

  (** val div_eucl : z -> z -> z * z **)

  let div_eucl a b =
    match a with
    | Z0 -> (Z0, Z0)
    | Zpos a' ->
      (match b with
       | Z0 -> (Z0, a)
       | Zpos _ -> pos_div_eucl a' b
       | Zneg b' ->
         let (q, r) = pos_div_eucl a' (Zpos b') in
         (match r with
          | Z0 -> ((opp q), Z0)
          | _ -> ((opp (add q (Zpos XH))), (add b r))))
    | Zneg a' ->
      (match b with
       | Z0 -> (Z0, a)
       | Zpos _ ->
         let (q, r) = pos_div_eucl a' b in
         (match r with
          | Z0 -> ((opp q), Z0)
          | _ -> ((opp (add q (Zpos XH))), (sub b r)))
       | Zneg b' -> let (q, r) = pos_div_eucl a' (Zpos b') in (q, (opp r)))

  (** val modulo : z -> z -> z **)

  let modulo a b =
    let (_, r) = div_eucl a b in r

  (** val quotrem : z -> z -> z * z **)

  let quotrem a b =
    match a with
    | Z0 -> (Z0, Z0)
    | Zpos a0 ->
      (match b with
       | Z0 -> (Z0, a)
       | Zpos b0 ->
         let (q, r) = N.pos_div_eucl a0 (Npos b0) in ((of_N q), (of_N r))
       | Zneg b0 ->
         let (q, r) = N.pos_div_eucl a0 (Npos b0) in
         ((opp (of_N q)), (of_N r)))
    | Zneg a0 ->
      (match b with
       | Z0 -> (Z0, a)
       | Zpos b0 ->
         let (q, r) = N.pos_div_eucl a0 (Npos b0) in
         ((opp (of_N q)), (opp (of_N r)))
       | Zneg b0 ->
         let (q, r) = N.pos_div_eucl a0 (Npos b0) in
         ((of_N q), (opp (of_N r))))

  (** val quot : z -> z -> z **)

  let quot a b =
    fst (quotrem a b)

  (** val rem : z -> z -> z **)

  let rem a b =
    snd (quotrem a b)

  (** val odd : z -> bool **)

  let odd = function
  | Z0 -> false
  | Zpos p -> (match p with
               | XO _ -> false
               | _ -> true)
  | Zneg p -> (match p with
               | XO _ -> false
               | _ -> true)
 end

(** val nth_error : 'a1 list -> nat -> 'a1 option **)

let rec nth_error l = function
| O -> (match l with
        | [] -> None
        | x :: _ -> Some x)
| S n1 -> (match l with
           | [] -> None
           | _ :: l0 -> nth_error l0 n1)

type 'a res =
| Val of 'a
| Panic
| UB

(** val bind : 'a1 res -> ('a1 -> 'a2 res) -> 'a2 res **)

let bind r f =
  match r with
  | Val a -> f a
  | Panic -> Panic
  | UB -> UB

type profile = { ovf_checks : bool; dbg_asserts : bool }

(** val dev : profile **)

let dev =
  { ovf_checks = true; dbg_asserts = true }

(** val release : profile **)

let release =
  { ovf_checks = false; dbg_asserts = false }

type ity =
| U8
| I8
| U16
| I16
| U32
| I32
| U64
| I64
| U128
| I128
| Usize
| Isize

(** val bits : ity -> z **)

let bits = function
| U8 -> Zpos (XO (XO (XO XH)))
| I8 -> Zpos (XO (XO (XO XH)))
| U16 -> Zpos (XO (XO (XO (XO XH))))
| I16 -> Zpos (XO (XO (XO (XO XH))))
| U32 -> Zpos (XO (XO (XO (XO (XO XH)))))
| I32 -> Zpos (XO (XO (XO (XO (XO XH)))))
| U128 -> Zpos (XO (XO (XO (XO (XO (XO (XO XH)))))))
| I128 -> Zpos (XO (XO (XO (XO (XO (XO (XO XH)))))))
| _ -> Zpos (XO (XO (XO (XO (XO (XO XH))))))

(** val signed : ity -> bool **)

let signed = function
| U8 -> false
| U16 -> false
| U32 -> false
| U64 -> false
| U128 -> false
| Usize -> false
| _ -> true

(** val tmin : ity -> z **)

let tmin t =
  if signed t
  then Z.opp (Z.pow (Zpos (XO XH)) (Z.sub (bits t) (Zpos XH)))
  else Z0

(** val tmax : ity -> z **)

let tmax t =
  if signed t
  then Z.sub (Z.pow (Zpos (XO XH)) (Z.sub (bits t) (Zpos XH))) (Zpos XH)
  else Z.sub (Z.pow (Zpos (XO XH)) (bits t)) (Zpos XH)

(** val in_range : ity -> z -> bool **)

let in_range t z0 =
  (&&) (Z.leb (tmin t) z0) (Z.leb z0 (tmax t))

(** val wrap : ity -> z -> z **)

let wrap t z0 =
  if signed t
  then Z.sub
         (Z.modulo
           (Z.add z0 (Z.pow (Zpos (XO XH)) (Z.sub (bits t) (Zpos XH))))
           (Z.pow (Zpos (XO XH)) (bits t)))
         (Z.pow (Zpos (XO XH)) (Z.sub (bits t) (Zpos XH)))
  else Z.modulo z0 (Z.pow (Zpos (XO XH)) (bits t))

(** val ck : profile -> ity -> z -> z res **)

let ck pf t z0 =
  if in_range t z0
  then Val z0
  else if pf.ovf_checks then Panic else Val (wrap t z0)

(** val ck_add : profile -> ity -> z -> z -> z res **)

let ck_add pf t a b =
  ck pf t (Z.add a b)

(** val ck_sub : profile -> ity -> z -> z -> z res **)

let ck_sub pf t a b =
  ck pf t (Z.sub a b)

(** val ck_neg : profile -> ity -> z -> z res **)

let ck_neg pf t a =
  ck pf t (Z.opp a)

(** val checked : ity -> z -> z option **)

let checked t z0 =
  if in_range t z0 then Some z0 else None

(** val t_div : ity -> z -> z -> z res **)

let t_div t a b =
  if Z.eqb b Z0
  then Panic
  else if (&&) ((&&) (signed t) (Z.eqb a (tmin t))) (Z.eqb b (Zneg XH))
       then Panic
       else Val (Z.quot a b)

(** val t_rem : ity -> z -> z -> z res **)

let t_rem t a b =
  if Z.eqb b Z0
  then Panic
  else if (&&) ((&&) (signed t) (Z.eqb a (tmin t))) (Z.eqb b (Zneg XH))
       then Panic
       else Val (Z.rem a b)

(** val ck_shl : profile -> ity -> z -> z -> z res **)

let ck_shl pf t a n0 =
  if (&&) (Z.leb Z0 n0) (Z.ltb n0 (bits t))
  then Val (wrap t (Z.mul a (Z.pow (Zpos (XO XH)) n0)))
  else if pf.ovf_checks
       then Panic
       else Val
              (wrap t (Z.mul a (Z.pow (Zpos (XO XH)) (Z.modulo n0 (bits t)))))

(** val cast : ity -> z -> z **)

let cast =
  wrap

(** val index : 'a1 list -> z -> 'a1 res **)

let index l i =
  if Z.ltb i Z0
  then Panic
  else (match nth_error l (Z.to_nat i) with
        | Some a -> Val a
        | None -> Panic)

type mode =
| R05Up
| RCeiling
| RDown
| RFloor
| RHalfDown
| RHalfEven
| RHalfUp
| RUp

(** val all_modes : mode list **)

let all_modes =
  R05Up :: (RCeiling :: (RDown :: (RFloor :: (RHalfDown :: (RHalfEven :: (RHalfUp :: (RUp :: [])))))))

type dec = { coeff : z; nfd : z }

(** val dZERO : dec **)

let dZERO =
  { coeff = Z0; nfd = Z0 }

(** val pOWERS_OF_10 : z list **)

let pOWERS_OF_10 =
  (Zpos XH) :: ((Zpos (XO (XI (XO XH)))) :: ((Zpos (XO (XO (XI (XO (XO (XI
    XH))))))) :: ((Zpos (XO (XO (XO (XI (XO (XI (XI (XI (XI
    XH)))))))))) :: ((Zpos (XO (XO (XO (XO (XI (XO (XO (XO (XI (XI (XI (XO
    (XO XH)))))))))))))) :: ((Zpos (XO (XO (XO (XO (XO (XI (XO (XI (XO (XI
    (XI (XO (XO (XO (XO (XI XH))))))))))))))))) :: ((Zpos (XO (XO (XO (XO (XO
    (XO (XI (XO (XO (XI (XO (XO (XO (XO (XI (XO (XI (XI (XI
    XH)))))))))))))))))))) :: ((Zpos (XO (XO (XO (XO (XO (XO (XO (XI (XO (XI
    (XI (XO (XI (XO (XO (XI (XO (XO (XO (XI (XI (XO (XO
    XH)))))))))))))))))))))))) :: ((Zpos (XO (XO (XO (XO (XO (XO (XO (XO (XI
    (XO (XO (XO (XO (XI (XI (XI (XI (XO (XI (XO (XI (XI (XI (XI (XI (XO
    XH))))))))))))))))))))))))))) :: ((Zpos (XO (XO (XO (XO (XO (XO (XO (XO
    (XO (XI (XO (XI (XO (XO (XI (XI (XO (XI (XO (XI (XI (XO (XO (XI (XI (XI
    (XO (XI (XI XH)))))))))))))))))))))))))))))) :: ((Zpos (XO (XO (XO (XO
    (XO (XO (XO (XO (XO (XO (XI (XO (XO (XI (XI (XI (XI (XI (XO (XI (XO (XO
    (XO (XO (XO (XO (XI (XO (XI (XO (XI (XO (XO
    XH)))))))))))))))))))))))))))))))))) :: ((Zpos (XO (XO (XO (XO (XO (XO
    (XO (XO (XO (XO (XO (XI (XO (XI (XI (XI (XO (XI (XI (XO (XI (XI (XI (XO
    (XO (XO (XO (XI (XO (XO (XI (XO (XI (XI (XI (XO
    XH))))))))))))))))))))))))))))))))))))) :: ((Zpos (XO (XO (XO (XO (XO (XO
    (XO (XO (XO (XO (XO (XO (XI (XO (XO (XO (XI (XO (XI (XO (XO (XI (XO (XI
    (XO (XO (XI (XO (XI (XO (XI (XI (XO (XO (XO (XI (XO (XI (XI
    XH)))))))))))))))))))))))))))))))))))))))) :: ((Zpos (XO (XO (XO (XO (XO
    (XO (XO (XO (XO (XO (XO (XO (XO (XI (XO (XI (XO (XI (XO (XO (XI (XI (XI
    (XO (XO (XI (XI (XI (XO (XO (XI (XO (XO (XO (XO (XI (XI (XO (XO (XO (XI
    (XO (XO XH)))))))))))))))))))))))))))))))))))))))))))) :: ((Zpos (XO (XO
    (XO (XO (XO (XO (XO (XO (XO (XO (XO (XO (XO (XO (XI (XO (XO (XI (XO (XI
    (XI (XI (XI (XO (XO (XO (XO (XO (XI (XO (XO (XO (XI (XI (XO (XO (XI (XI
    (XI (XI (XO (XI (XO (XI (XI (XO
    XH))))))))))))))))))))))))))))))))))))))))))))))) :: ((Zpos (XO (XO (XO
    (XO (XO (XO (XO (XO (XO (XO (XO (XO (XO (XO (XO (XI (XO (XI (XI (XO (XO
    (XO (XI (XI (XO (XO (XI (XO (XO (XI (XO (XI (XO (XI (XI (XI (XI (XI (XI
    (XO (XI (XO (XI (XI (XO (XO (XO (XI (XI
    XH)))))))))))))))))))))))))))))))))))))))))))))))))) :: ((Zpos (XO (XO
    (XO (XO (XO (XO (XO (XO (XO (XO (XO (XO (XO (XO (XO (XO (XI (XO (XO (XO
    (XO (XO (XI (XI (XI (XI (XI (XI (XO (XI (XI (XO (XO (XI (XO (XO (XI (XI
    (XI (XI (XO (XI (XI (XO (XO (XO (XO (XI (XI (XI (XO (XO (XO
    XH)))))))))))))))))))))))))))))))))))))))))))))))))))))) :: ((Zpos (XO
    (XO (XO (XO (XO (XO (XO (XO (XO (XO (XO (XO (XO (XO (XO (XO (XO (XI (XO
    (XI (XO (XO (XO (XI (XI (XO (XI (XI (XI (XO (XI (XO (XO (XO (XO (XI (XI
    (XI (XI (XO (XI (XO (XI (XO (XO (XO (XI (XO (XI (XI (XO (XO (XO (XI (XI
    (XO XH))))))))))))))))))))))))))))))))))))))))))))))))))))))))) :: ((Zpos
    (XO (XO (XO (XO (XO (XO (XO (XO (XO (XO (XO (XO (XO (XO (XO (XO (XO (XO
    (XI (XO (XO (XI (XI (XO (XI (XI (XI (XO (XO (XI (XO (XI (XI (XI (XO (XO
    (XI (XI (XO (XI (XO (XI (XI (XO (XI (XI (XO (XI (XO (XO (XO (XO (XO (XI
    (XI (XI (XI (XO (XI
    XH)))))))))))))))))))))))))))))))))))))))))))))))))))))))))))) :: ((Zpos
    (XO (XO (XO (XO (XO (XO (XO (XO (XO (XO (XO (XO (XO (XO (XO (XO (XO (XO
    (XO (XI (XO (XI (XI (XI (XI (XO (XO (XI (XO (XO (XO (XI (XO (XO (XI (XO
    (XO (XO (XO (XO (XI (XI (XO (XO (XO (XI (XO (XO (XI (XI (XI (XO (XO (XO
    (XI (XI (XO (XI (XO (XI (XO (XO (XO
    XH)))))))))))))))))))))))))))))))))))))))))))))))))))))))))))))))) :: ((Zpos
    (XO (XO (XO (XO (XO (XO (XO (XO (XO (XO (XO (XO (XO (XO (XO (XO (XO (XO
    (XO (XO (XI (XO (XO (XO (XI (XI (XO (XO (XO (XI (XI (XO (XI (XO (XI (XI
    (XO (XI (XO (XO (XO (XI (XI (XI (XI (XO (XI (XO (XI (XI (XI (XO (XO (XO
    (XI (XI (XI (XI (XO (XI (XO (XI (XI (XO (XI (XO
    XH))))))))))))))))))))))))))))))))))))))))))))))))))))))))))))))))))) :: ((Zpos
    (XO (XO (XO (XO (XO (XO (XO (XO (XO (XO (XO (XO (XO (XO (XO (XO (XO (XO
    (XO (XO (XO (XI (XO (XI (XO (XI (XI (XI (XI (XO (XI (XI (XI (XO (XI (XO
    (XO (XO (XI (XI (XI (XO (XI (XI (XO (XI (XO (XI (XI (XO (XO (XI (XO (XO
    (XI (XI (XI (XO (XI (XO (XI (XI (XO (XO (XO (XI (XI (XO (XI
    XH)))))))))))))))))))))))))))))))))))))))))))))))))))))))))))))))))))))) :: ((Zpos
    (XO (XO (XO (XO (XO (XO (XO (XO (XO (XO (XO (XO (XO (XO (XO (XO (XO (XO
    (XO (XO (XO (XO (XI (XO (XO (XI (XO (XO (XI (XI (XO (XI (XO (XI (XO (XI
    (XI (XI (XO (XI (XI (XO (XO (XI (XO (XO (XI (XI (XO (XO (XO (XO (XO (XI
    (XI (XI (XI (XO (XO (XI (XI (XO (XO (XO (XO (XI (XI (XI (XI (XO (XO (XO
    (XO
    XH)))))))))))))))))))))))))))))))))))))))))))))))))))))))))))))))))))))))))) :: ((Zpos
    (XO (XO (XO (XO (XO (XO (XO (XO (XO (XO (XO (XO (XO (XO (XO (XO (XO (XO
    (XO (XO (XO (XO (XO (XI (XO (XI (XI (XO (XI (XI (XI (XI (XO (XI (XO (XI
    (XO (XO (XI (XO (XI (XO (XO (XO (XO (XI (XI (XI (XI (XI (XI (XO (XO (XO
    (XI (XI (XO (XI (XO (XO (XO (XO (XO (XO (XI (XO (XI (XI (XO (XI (XO (XO
    (XI (XO (XI (XO
    XH))))))))))))))))))))))))))))))))))))))))))))))))))))))))))))))))))))))))))))) :: ((Zpos
    (XO (XO (XO (XO (XO (XO (XO (XO (XO (XO (XO (XO (XO (XO (XO (XO (XO (XO
    (XO (XO (XO (XO (XO (XO (XI (XO (XO (XO (XO (XI (XO (XI (XI (XO (XI (XI
    (XO (XI (XI (XI (XO (XO (XI (XI (XO (XO (XI (XI (XO (XI (XI (XI (XO (XO
    (XI (XI (XI (XI (XO (XI (XI (XO (XO (XO (XO (XI (XO (XO (XO (XO (XI (XI
    (XI (XI (XO (XO (XI (XO (XI
    XH)))))))))))))))))))))))))))))))))))))))))))))))))))))))))))))))))))))))))))))))) :: ((Zpos
    (XO (XO (XO (XO (XO (XO (XO (XO (XO (XO (XO (XO (XO (XO (XO (XO (XO (XO
    (XO (XO (XO (XO (XO (XO (XO (XI (XO (XI (XO (XO (XI (XO (XO (XO (XO (XI
    (XO (XO (XI (XO (XI (XO (XO (XO (XO (XO (XO (XO (XO (XO (XI (XO (XI (XO
    (XO (XO (XO (XI (XI (XO (XI (XO (XO (XO (XI (XO (XI (XO (XI (XO (XO (XI
    (XI (XO (XI (XO (XO (XO (XI (XO (XO (XO (XO
    XH)))))))))))))))))))))))))))))))))))))))))))))))))))))))))))))))))))))))))))))))))))) :: ((Zpos
    (XO (XO (XO (XO (XO (XO (XO (XO (XO (XO (XO (XO (XO (XO (XO (XO (XO (XO
    (XO (XO (XO (XO (XO (XO (XO (XO (XI (XO (XO (XI (XI (XI (XO (XI (XO (XO
    (XI (XO (XI (XI (XO (XO (XI (XI (XO (XO (XO (XO (XO (XO (XO (XI (XO (XO
    (XI (XI (XO (XO (XI (XI (XI (XO (XI (XI (XO (XI (XO (XO (XI (XO (XI (XI
    (XI (XI (XI (XO (XI (XI (XO (XI (XO (XI (XO (XO (XI (XO
    XH))))))))))))))))))))))))))))))))))))))))))))))))))))))))))))))))))))))))))))))))))))))) :: ((Zpos
    (XO (XO (XO (XO (XO (XO (XO (XO (XO (XO (XO (XO (XO (XO (XO (XO (XO (XO
    (XO (XO (XO (XO (XO (XO (XO (XO (XO (XI (XO (XI (XI (XI (XO (XO (XI (XI
    (XI (XI (XO (XO (XO (XO (XO (XO (XO (XO (XO (XI (XO (XO (XO (XO (XI (XO
    (XI (XI (XI (XI (XI (XI (XI (XO (XO (XI (XO (XO (XI (XI (XI (XI (XO (XO
    (XO (XI (XI (XI (XO (XI (XO (XO (XI (XI (XO (XI (XI (XI (XO (XO (XI
    XH)))))))))))))))))))))))))))))))))))))))))))))))))))))))))))))))))))))))))))))))))))))))))) :: ((Zpos
    (XO (XO (XO (XO (XO (XO (XO (XO (XO (XO (XO (XO (XO (XO (XO (XO (XO (XO
    (XO (XO (XO (XO (XO (XO (XO (XO (XO (XO (XI (XO (XO (XO (XI (XO (XO (XO
    (XO (XI (XI (XO (XO (XI (XO (XO (XO (XO (XO (XO (XI (XO (XI (XO (XO (XI
    (XO (XO (XO (XI (XI (XI (XI (XI (XO (XO (XO (XI (XI (XI (XI (XO (XI (XO
    (XO (XI (XI (XI (XO (XO (XI (XI (XI (XI (XI (XI (XO (XO (XI (XO (XO (XO
    (XO (XO (XO
    XH)))))))))))))))))))))))))))))))))))))))))))))))))))))))))))))))))))))))))))))))))))))))))))))) :: ((Zpos
    (XO (XO (XO (XO (XO (XO (XO (XO (XO (XO (XO (XO (XO (XO (XO (XO (XO (XO
    (XO (XO (XO (XO (XO (XO (XO (XO (XO (XO (XO (XI (XO (XI (XO (XI (XO (XI
    (XO (XO (XI (XI (XI (XI (XI (XO (XI (XO (XO (XO (XO (XI (XO (XO (XI (XI
    (XI (XO (XI (XO (XI (XI (XO (XI (XI (XO (XO (XI (XI (XI (XO (XI (XO (XI
    (XI (XI (XI (XI (XO (XO (XO (XO (XO (XI (XI (XI (XI (XO (XO (XO (XI (XI
    (XO (XO (XO (XO (XI (XO
    XH))))))))))))))))))))))))))))))))))))))))))))))))))))))))))))))))))))))))))))))))))))))))))))))))) :: ((Zpos
    (XO (XO (XO (XO (XO (XO (XO (XO (XO (XO (XO (XO (XO (XO (XO (XO (XO (XO
    (XO (XO (XO (XO (XO (XO (XO (XO (XO (XO (XO (XO (XI (XO (XO (XI (XO (XI
    (XO (XI (XI (XI (XI (XO (XI (XI (XO (XI (XI (XI (XO (XO (XI (XO (XI (XI
    (XI (XO (XO (XI (XI (XO (XO (XO (XI (XO (XO (XO (XO (XO (XI (XO (XI (XI
    (XO (XO (XI (XI (XI (XO (XO (XI (XO (XO (XI (XI (XO (XI (XO (XO (XI (XI
    (XI (XI (XI (XO (XO (XI (XO (XO (XI
    XH)))))))))))))))))))))))))))))))))))))))))))))))))))))))))))))))))))))))))))))))))))))))))))))))))))) :: ((Zpos
    (XO (XO (XO (XO (XO (XO (XO (XO (XO (XO (XO (XO (XO (XO (XO (XO (XO (XO
    (XO (XO (XO (XO (XO (XO (XO (XO (XO (XO (XO (XO (XO (XI (XO (XI (XI (XO
    (XO (XI (XO (XO (XI (XI (XO (XI (XO (XO (XI (XO (XI (XO (XO (XO (XI (XO
    (XO (XI (XO (XO (XO (XO (XO (XO (XI (XI (XO (XI (XO (XO (XO (XI (XO (XO
    (XO (XO (XO (XO (XO (XI (XO (XO (XO (XI (XI (XI (XI (XI (XO (XI (XI (XI
    (XI (XO (XI (XI (XO (XO (XO (XI (XI (XI (XI (XI
    XH))))))))))))))))))))))))))))))))))))))))))))))))))))))))))))))))))))))))))))))))))))))))))))))))))))))) :: ((Zpos
    (XO (XO (XO (XO (XO (XO (XO (XO (XO (XO (XO (XO (XO (XO (XO (XO (XO (XO
    (XO (XO (XO (XO (XO (XO (XO (XO (XO (XO (XO (XO (XO (XO (XI (XO (XO (XO
    (XO (XO (XO (XI (XI (XI (XI (XI (XO (XI (XI (XI (XO (XO (XI (XI (XO (XI
    (XO (XI (XI (XO (XI (XO (XO (XO (XO (XI (XI (XI (XO (XI (XI (XO (XI (XO
    (XI (XO (XO (XO (XO (XO (XI (XO (XI (XO (XI (XI (XO (XI (XI (XO (XI (XO
    (XI (XI (XO (XI (XO (XO (XO (XI (XI (XI (XO (XI (XI (XI (XO (XO
    XH))))))))))))))))))))))))))))))))))))))))))))))))))))))))))))))))))))))))))))))))))))))))))))))))))))))))))) :: ((Zpos
    (XO (XO (XO (XO (XO (XO (XO (XO (XO (XO (XO (XO (XO (XO (XO (XO (XO (XO
    (XO (XO (XO (XO (XO (XO (XO (XO (XO (XO (XO (XO (XO (XO (XO (XI (XO (XI
    (XO (XO (XO (XO (XI (XI (XO (XI (XI (XO (XI (XO (XI (XO (XO (XO (XO (XO
    (XI (XI (XO (XO (XO (XI (XI (XI (XO (XO (XI (XI (XO (XO (XI (XO (XO (XI
    (XI (XO (XI (XI (XO (XO (XO (XI (XO (XO (XI (XO (XO (XO (XI (XO (XO (XI
    (XI (XO (XO (XO (XI (XI (XI (XO (XI (XI (XO (XO (XI (XO (XI (XO (XO (XO
    (XI
    XH)))))))))))))))))))))))))))))))))))))))))))))))))))))))))))))))))))))))))))))))))))))))))))))))))))))))))))))) :: ((Zpos
    (XO (XO (XO (XO (XO (XO (XO (XO (XO (XO (XO (XO (XO (XO (XO (XO (XO (XO
    (XO (XO (XO (XO (XO (XO (XO (XO (XO (XO (XO (XO (XO (XO (XO (XO (XI (XO
    (XO (XI (XI (XO (XO (XI (XI (XI (XO (XO (XO (XI (XI (XO (XI (XI (XO (XO
    (XO (XI (XI (XI (XI (XO (XI (XI (XO (XO (XO (XO (XO (XO (XO (XO (XI (XI
    (XI (XI (XI (XO (XO (XO (XO (XI (XI (XO (XI (XI (XO (XI (XO (XI (XO (XI
    (XI (XI (XI (XI (XO (XI (XI (XO (XO (XI (XO (XO (XO (XO (XI (XO (XI (XI
    (XO (XI (XI (XI
    XH))))))))))))))))))))))))))))))))))))))))))))))))))))))))))))))))))))))))))))))))))))))))))))))))))))))))))))))))) :: ((Zpos
    (XO (XO (XO (XO (XO (XO (XO (XO (XO (XO (XO (XO (XO (XO (XO (XO (XO (XO
    (XO (XO (XO (XO (XO (XO (XO (XO (XO (XO (XO (XO (XO (XO (XO (XO (XO (XI
    (XO (XI (XI (XI (XI (XI (XI (XI (XO (XO (XO (XI (XI (XI (XI (XO (XO (XO
    (XO (XI (XI (XI (XO (XI (XO (XI (XO (XO (XO (XI (XO (XO (XO (XO (XO (XI
    (XI (XO (XI (XI (XO (XO (XI (XO (XI (XI (XI (XO (XO (XO (XI (XI (XO (XI
    (XO (XO (XI (XI (XI (XO (XI (XO (XO (XO (XO (XI (XI (XO (XO (XI (XO (XO
    (XO (XO (XI (XO (XI (XI (XO (XO
    XH))))))))))))))))))))))))))))))))))))))))))))))))))))))))))))))))))))))))))))))))))))))))))))))))))))))))))))))))))))) :: ((Zpos
    (XO (XO (XO (XO (XO (XO (XO (XO (XO (XO (XO (XO (XO (XO (XO (XO (XO (XO
    (XO (XO (XO (XO (XO (XO (XO (XO (XO (XO (XO (XO (XO (XO (XO (XO (XO (XO
    (XI (XO (XO (XO (XI (XI (XI (XI (XI (XO (XO (XI (XI (XI (XO (XI (XO (XO
    (XI (XO (XI (XI (XO (XO (XI (XI (XO (XI (XI (XO (XI (XO (XI (XO (XO (XO
    (XI (XI (XI (XO (XO (XO (XO (XO (XI (XO (XO (XI (XO (XO (XI (XI (XI (XI
    (XO (XI (XI (XI (XI (XO (XO (XI (XI (XI (XO (XO (XI (XI (XI (XI (XI (XO
    (XI (XO (XO (XI (XO (XO (XO (XO (XO (XO (XI
    XH)))))))))))))))))))))))))))))))))))))))))))))))))))))))))))))))))))))))))))))))))))))))))))))))))))))))))))))))))))))))) :: ((Zpos
    (XO (XO (XO (XO (XO (XO (XO (XO (XO (XO (XO (XO (XO (XO (XO (XO (XO (XO
    (XO (XO (XO (XO (XO (XO (XO (XO (XO (XO (XO (XO (XO (XO (XO (XO (XO (XO
    (XO (XI (XO (XI (XO (XI (XI (XO (XI (XI (XO (XO (XO (XO (XI (XO (XI (XI
    (XI (XI (XO (XO (XO (XO (XO (XO (XO (XO (XI (XO (XO (XI (XI (XO (XI (XI
    (XO (XI (XI (XO (XO (XO (XI (XO (XO (XI (XO (XI (XI (XO (XI (XI (XI (XO
    (XI (XO (XI (XO (XI (XI (XO (XO (XO (XO (XI (XO (XO (XO (XO (XI (XI (XI
    (XO (XI (XI (XI (XI (XO (XI (XO (XO (XO (XO (XI (XI (XI
    XH))))))))))))))))))))))))))))))))))))))))))))))))))))))))))))))))))))))))))))))))))))))))))))))))))))))))))))))))))))))))))) :: ((Zpos
    (XO (XO (XO (XO (XO (XO (XO (XO (XO (XO (XO (XO (XO (XO (XO (XO (XO (XO
    (XO (XO (XO (XO (XO (XO (XO (XO (XO (XO (XO (XO (XO (XO (XO (XO (XO (XO
    (XO (XO (XI (XO (XO (XI (XO (XO (XO (XI (XO (XO (XO (XI (XO (XI (XO (XO
    (XO (XI (XI (XO (XO (XI (XO (XO (XO (XO (XO (XI (XO (XI (XI (XI (XI (XO
    (XO (XO (XI (XO (XO (XO (XI (XI (XO (XI (XI (XO (XO (XO (XO (XI (XO (XI
    (XO (XI (XI (XO (XI (XO (XO (XO (XO (XI (XO (XI (XO (XI (XO (XO (XI (XI
    (XO (XO (XI (XO (XI (XI (XO (XI (XI (XI (XO (XO (XI (XI (XO (XI (XO (XO
    XH))))))))))))))))))))))))))))))))))))))))))))))))))))))))))))))))))))))))))))))))))))))))))))))))))))))))))))))))))))))))))))))) :: []))))))))))))))))))))))))))))))))))))))

(** val cHECKED_TEN_POW_LIMIT : z **)

let cHECKED_TEN_POW_LIMIT =
  Zpos (XO (XI (XI (XO (XO XH)))))

(** val rOUND_SHORTCUT : z **)

let rOUND_SHORTCUT =
  Zpos (XO (XI (XI (XO (XO XH)))))

(** val ten_pow : z -> z res **)

let ten_pow n0 =
  index pOWERS_OF_10 n0

(** val checked_ten_pow : z -> z option res **)

let checked_ten_pow n0 =
  if Z.gtb n0 cHECKED_TEN_POW_LIMIT
  then Val None
  else bind (index pOWERS_OF_10 n0) (fun v -> Val (Some v))

(** val mul_pow_ten : z -> z -> z res **)

let mul_pow_ten val0 n0 =
  bind (ten_pow n0) (fun t ->
    match checked I128 (Z.mul val0 t) with
    | Some v -> Val v
    | None -> Panic)

(** val checked_mul_pow_ten : z -> z -> z option res **)

let checked_mul_pow_ten val0 n0 =
  bind (checked_ten_pow n0) (fun ot ->
    match ot with
    | Some t -> Val (checked I128 (Z.mul val0 t))
    | None -> Val None)

(** val rnd : mode -> z -> z -> z **)

let rnd m num den =
  let t = Z.quot num den in
  let rr = Z.abs (Z.rem num den) in
  let away = Z.add t (Z.sgn num) in
  if Z.eqb rr Z0
  then t
  else (match m with
        | R05Up -> if Z.eqb (Z.rem t (Zpos (XI (XO XH)))) Z0 then away else t
        | RCeiling -> if Z.ltb Z0 num then away else t
        | RDown -> t
        | RFloor -> if Z.ltb num Z0 then away else t
        | RHalfDown -> if Z.ltb den (Z.mul (Zpos (XO XH)) rr) then away else t
        | RHalfEven ->
          if (||) (Z.ltb den (Z.mul (Zpos (XO XH)) rr))
               ((&&) (Z.eqb den (Z.mul (Zpos (XO XH)) rr)) (Z.odd t))
          then away
          else t
        | RHalfUp -> if Z.leb den (Z.mul (Zpos (XO XH)) rr) then away else t
        | RUp -> away)

(** val rndq : mode -> z -> z -> z **)

let rndq m num den =
  if Z.ltb den Z0 then rnd m (Z.opp num) (Z.opp den) else rnd m num den

(** val i128_div_mod_floor : profile -> z -> z -> (z * z) res **)

let i128_div_mod_floor pf x y =
  bind (t_div I128 x y) (fun q ->
    bind (t_rem I128 x y) (fun r ->
      if (||) ((&&) (Z.gtb r Z0) (Z.ltb y Z0))
           ((&&) (Z.ltb r Z0) (Z.gtb y Z0))
      then bind (ck_sub pf I128 q (Zpos XH)) (fun q' ->
             bind (ck_add pf I128 r y) (fun r' -> Val (q', r')))
      else Val (q, r)))

(** val incr : z -> z option res **)

let incr quot0 =
  Val (checked I128 (Z.add quot0 (Zpos XH)))

(** val keep : z -> z option res **)

let keep quot0 =
  Val (Some quot0)

(** val round_quot : profile -> z -> z -> z -> mode -> z option res **)

let round_quot pf quot0 rem0 divisor m =
  if Z.eqb rem0 Z0
  then keep quot0
  else (match m with
        | R05Up ->
          bind
            (if Z.geb quot0 Z0
             then bind (t_rem I128 quot0 (Zpos (XI (XO XH)))) (fun r -> Val
                    (Z.eqb r Z0))
             else Val false) (fun c1 ->
            bind
              (if c1
               then Val true
               else if Z.ltb quot0 Z0
                    then bind (ck_add pf I128 quot0 (Zpos XH)) (fun q1 ->
                           bind (t_rem I128 q1 (Zpos (XI (XO XH)))) (fun r ->
                             Val (negb (Z.eqb r Z0))))
                    else Val false) (fun c ->
              if c then incr quot0 else keep quot0))
        | RCeiling -> incr quot0
        | RDown -> if Z.ltb quot0 Z0 then incr quot0 else keep quot0
        | RFloor -> keep quot0
        | RHalfDown ->
          bind (ck_shl pf U128 rem0 (Zpos XH)) (fun rem_doubled ->
            if (||) (Z.gtb rem_doubled divisor)
                 ((&&) (Z.eqb rem_doubled divisor) (Z.ltb quot0 Z0))
            then incr quot0
            else keep quot0)
        | RHalfEven ->
          bind (ck_shl pf U128 rem0 (Zpos XH)) (fun rem_doubled ->
            bind
              (if Z.gtb rem_doubled divisor
               then Val true
               else if Z.eqb rem_doubled divisor
                    then bind (t_rem I128 quot0 (Zpos (XO XH))) (fun r -> Val
                           (negb (Z.eqb r Z0)))
                    else Val false) (fun c ->
              if c then incr quot0 else keep quot0))
        | RHalfUp ->
          bind (ck_shl pf U128 rem0 (Zpos XH)) (fun rem_doubled ->
            if (||) (Z.gtb rem_doubled divisor)
                 ((&&) (Z.eqb rem_doubled divisor) (Z.geb quot0 Z0))
            then incr quot0
            else keep quot0)
        | RUp -> if Z.geb quot0 Z0 then incr quot0 else keep quot0)

(** val i128_div_rounded : profile -> z -> z -> mode -> z res **)

let i128_div_rounded pf divident divisor m =
  bind
    (if Z.ltb divisor Z0
     then bind (ck_neg pf I128 divident) (fun a ->
            bind (ck_neg pf I128 divisor) (fun b -> Val (a, b)))
     else Val (divident, divisor)) (fun pat ->
    let (dd, dv) = pat in
    bind (i128_div_mod_floor pf dd dv) (fun pat0 ->
      let (quot0, rem0) = pat0 in
      bind (round_quot pf quot0 (cast U128 rem0) (cast U128 dv) m) (fun o ->
        match o with
        | Some q -> Val q
        | None -> Panic)))

(** val dec_round : profile -> mode -> dec -> z -> dec res **)

let dec_round pf m d n0 =
  let p = cast I8 d.nfd in
  if Z.geb n0 p
  then Val d
  else bind (ck_sub pf I8 p rOUND_SHORTCUT) (fun lim ->
         if Z.ltb n0 lim
         then bind
                (i128_div_rounded pf (Z.sgn d.coeff) (Zpos (XO (XI (XO XH))))
                  m) (fun unit0 ->
                if Z.eqb unit0 Z0
                then Val dZERO
                else bind (checked_mul_pow_ten unit0 (Z.abs n0)) (fun oc ->
                       match oc with
                       | Some c -> Val { coeff = c; nfd = Z0 }
                       | None -> Panic))
         else bind (ck_sub pf I8 p n0) (fun s ->
                bind (ten_pow (cast U8 s)) (fun divisor ->
                  bind (i128_div_rounded pf d.coeff divisor m) (fun c ->
                    if Z.geb n0 Z0
                    then Val { coeff = c; nfd = (cast U8 n0) }
                    else bind (ck_neg pf I8 n0) (fun nn ->
                           bind (ten_pow (cast U8 nn)) (fun t ->
                             match checked I128 (Z.mul c t) with
                             | Some c' -> Val { coeff = c'; nfd = Z0 }
                             | None -> Panic))))))

(** val dec_checked_round : profile -> mode -> dec -> z -> dec option res **)

let dec_checked_round pf m d n0 =
  let p = cast I8 d.nfd in
  if Z.geb n0 p
  then Val (Some d)
  else bind (ck_sub pf I8 p rOUND_SHORTCUT) (fun lim ->
         if Z.ltb n0 lim
         then bind
                (i128_div_rounded pf (Z.sgn d.coeff) (Zpos (XO (XI (XO XH))))
                  m) (fun unit0 ->
                if Z.eqb unit0 Z0
                then Val (Some dZERO)
                else bind (checked_mul_pow_ten unit0 (Z.abs n0)) (fun oc ->
                       Val (option_map (fun c -> { coeff = c; nfd = Z0 }) oc)))
         else bind (ck_sub pf I8 p n0) (fun s ->
                bind (ten_pow (cast U8 s)) (fun divisor ->
                  bind (i128_div_rounded pf d.coeff divisor m) (fun c ->
                    if Z.geb n0 Z0
                    then Val (Some { coeff = c; nfd = (cast U8 n0) })
                    else bind (ck_neg pf I8 n0) (fun nn ->
                           bind (ten_pow (cast U8 nn)) (fun t -> Val
                             (option_map (fun c' -> { coeff = c'; nfd = Z0 })
                               (checked I128 (Z.mul c t)))))))))

(** val round_spec : mode -> dec -> z -> dec option **)

let round_spec m d n0 =
  if Z.geb n0 d.nfd
  then Some d
  else let r = rnd m d.coeff (Z.pow (Zpos (XO (XI (XO XH)))) (Z.sub d.nfd n0))
       in
       if Z.geb n0 Z0
       then Some { coeff = r; nfd = n0 }
       else let c = Z.mul r (Z.pow (Zpos (XO (XI (XO XH)))) (Z.opp n0)) in
            if in_range I128 c then Some { coeff = c; nfd = Z0 } else None
